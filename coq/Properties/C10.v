(* C10  I-vectors are posterior means; covariance floor; EM monotonicity for a rank-1 subspace, with fixed covariances and with
   covariance updating (no floor active); rank > 1: numerical evidence only, see DESIGN.md - partial. *)
From Coq Require Import Reals List.
From BLE Require Import Num.InstR Model.IVector Proofs.RLemmas Proofs.IVectorR Proofs.JFARank1 Proofs.IVRank1 Proofs.IVRank1Sigma.
Import ListNotations IR.
Open Scope R_scope.

Theorem C10_ivector_solves_posterior_mean_equation inv (t : nat) (m : ivm) (s : gstat) :
  inv_ok inv t (precision t m s) ->
  V.matvec (precision t m s) (project inv t m s) = linterm t m s /\ length (project inv t m s) = t.
Proof. exact (project_solves inv t m s). Qed.
Print Assumptions C10_ivector_solves_posterior_mean_equation.

Theorem C10_posterior_mean_equation_has_unique_solution (C D t : nat) (m : ivm) (s : gstat) (w w' : list R) :
  ivm_ok C D t m -> gstat_ok C D s -> length w = t -> length w' = t ->
  V.matvec (precision t m s) w = linterm t m s -> V.matvec (precision t m s) w' = linterm t m s -> w = w'.
Proof. exact (fun Hm Hs => project_unique C D t m s Hm Hs w w'). Qed.
Print Assumptions C10_posterior_mean_equation_has_unique_solution.

Theorem C10_precision_is_identity_plus_psd (C D t : nat) (m : ivm) (s : gstat) (d : list R) :
  ivm_ok C D t m -> gstat_ok C D s -> length d = t ->
  dotR d d <= dotR d (V.matvec (precision t m s) d).
Proof. exact (fun Hm Hs => precision_quadratic_form C D t m s Hm Hs d). Qed.
Print Assumptions C10_precision_is_identity_plus_psd.

Theorem C10_no_frames_give_zero_ivector inv (t : nat) (m : ivm) (s : gstat) :
  inv_ok inv t (precision t m s) ->
  Forall (fun n => n = 0) (g_n s) -> Forall (Forall (fun f => f = 0)) (g_px s) ->
  project inv t m s = V.vzero t.
Proof. exact (project_zero_stats inv t m s). Qed.
Print Assumptions C10_no_frames_give_zero_ivector.

Theorem C10_covariances_never_below_floor inv (D t : nat) (floor : R) (m : ivm) (st : acc) :
  Forall (Forall (fun v => floor <= v)) (iv_sigma (m_step inv D t true floor m st)).
Proof. exact (sigma_floor inv D t floor m st). Qed.
Print Assumptions C10_covariances_never_below_floor.

Theorem C10_covariances_untouched_without_update inv (D t : nat) (floor : R) (m : ivm) (st : acc) :
  iv_sigma (m_step inv D t false floor m st) = iv_sigma m.
Proof. exact (sigma_unchanged inv D t floor m st). Qed.
Print Assumptions C10_covariances_untouched_without_update.

(* EM for a rank-1 total-variability subspace (t = 1), covariances held fixed (update_sigma = False): the code's iteration is
   the exact EM step on the column T and never decreases the marginal likelihood of the training statistics
   sum_s [ b_s^2 / (2 L_s) - 1/2 ln L_s ]  (the scalar i-vector of every utterance integrated out); means and covariances
   are left alone.  Any numbers of components, features and utterances; fractional and zero counts allowed. *)
Theorem C10_rank1_iteration_is_the_em_step (inv : list (list R) -> list (list R)) (C D : nat) (floor : R) (m : ivm) (X : list gstat) :
  inv1_ok inv -> ivm_ok C D 1 m -> Forall (IVectorR.gstat_ok C D) X ->
  Forall (fun w2 => nth 0 (nth 0 w2 []) 0 <> 0) (a_w2 (e_step inv C D 1 m X)) ->
  let m' := m_step inv D 1 false floor m (e_step inv C D 1 m X) in
  iv_mu m' = iv_mu m /\ iv_sigma m' = iv_sigma m
  /\ tcol (iv_T m') = em_v_step (tcol (iv_T m)) (concat (iv_sigma m)) (map (utt_NG D m) X).
Proof. exact (iv_em_rank1 inv C D floor m X). Qed.
Print Assumptions C10_rank1_iteration_is_the_em_step.

Theorem C10_rank1_training_iteration_monotone (inv : list (list R) -> list (list R)) (C D : nat) (floor : R) (m m' : ivm) (X : list gstat) :
  inv1_ok inv -> ivm_ok C D 1 m -> Forall (IVectorR.gstat_ok C D) X ->
  Forall (fun w2 => 0 < nth 0 (nth 0 w2 []) 0) (a_w2 (e_step inv C D 1 m X)) ->
  em_iter inv C D 1 false floor [X] m = Some m' ->
  iv_marginal D m (iv_T m) X <= iv_marginal D m (iv_T m') X.
Proof. exact (iv_em_iter_monotone_rank1 inv C D floor m m' X). Qed.
Print Assumptions C10_rank1_training_iteration_monotone.

(* The same with covariance updating (update_sigma = True), no floor active: the code's iteration is the exact EM step on the pair
   (T, sigma) and never decreases the marginal likelihood of the training statistics as a function of both,
     sum_s [ b_s^2/(2 L_s) - 1/2 ln L_s - 1/2 sum_j ( N_sj ln sigma_j + Q_sj / sigma_j ) ],  Q_s the centred second-order statistics. *)
Theorem C10_rank1_iteration_with_sigma_is_the_em_step (inv : list (list R) -> list (list R)) (C D : nat) (floor : R) (m : ivm) (X : list gstat) :
  inv1_ok inv -> ivm_ok C D 1 m -> Forall (IVectorR.gstat_ok C D) X ->
  Forall (fun w2 => nth 0 (nth 0 w2 []) 0 <> 0) (a_w2 (e_step inv C D 1 m X)) ->
  sigma_floor_inactive inv C D floor m X ->
  let m' := m_step inv D 1 true floor m (e_step inv C D 1 m X) in
  iv_mu m' = iv_mu m
  /\ tcol (iv_T m') = em_v_step (tcol (iv_T m)) (concat (iv_sigma m)) (map (utt_NG D m) X)
  /\ concat (iv_sigma m') = em_s_step (tcol (iv_T m)) (concat (iv_sigma m)) (map (utt_NGQ D m) X).
Proof. exact (iv_em_rank1_sigma inv C D floor m X). Qed.
Print Assumptions C10_rank1_iteration_with_sigma_is_the_em_step.

Theorem C10_rank1_training_iteration_with_sigma_monotone (inv : list (list R) -> list (list R)) (C D : nat) (floor : R) (m : ivm) (X : list gstat) :
  inv1_ok inv -> ivm_ok C D 1 m -> Forall (IVectorR.gstat_ok C D) X -> 0 < floor ->
  Forall (fun w2 => 0 < nth 0 (nth 0 w2 []) 0) (a_w2 (e_step inv C D 1 m X)) ->
  Forall (fun n => 0 < n) (a_n (e_step inv C D 1 m X)) ->
  sigma_floor_inactive inv C D floor m X ->
  let m' := m_step inv D 1 true floor m (e_step inv C D 1 m X) in
  iv_marginal2 D m (iv_T m) (iv_sigma m) X <= iv_marginal2 D m (iv_T m') (iv_sigma m') X.
Proof. exact (iv_em_sigma_monotone_rank1 inv C D floor m X). Qed.
Print Assumptions C10_rank1_training_iteration_with_sigma_monotone.
