(* C10  I-vectors are posterior means; covariance floor; EM monotonicity for a subspace of ANY dimension with fixed covariances
   and with covariance updating while no floor is active (ln det through a Cholesky factor, no determinant theory); the rank-1 theorems
   (scalar i-vector, solver used on 1x1 matrices only) are kept as the special case with closed-form EM steps. *)
From Coq Require Import Reals List.
From BLE Require Import Num.InstR Model.IVector Proofs.RLemmas Proofs.IVectorR Proofs.JFARank1 Proofs.IVRank1 Proofs.IVRank1Sigma Proofs.IVGeneral Proofs.IVGeneralSigma Proofs.IVGeneralZero.
Import ListNotations IR.
Open Scope R_scope.

Theorem C10_ivector_solves_posterior_mean_equation inv (t : nat) (m : ivm) (s : gstat) :
  inv_ok inv t (precision t m s) ->
  V.matvec (precision t m s) (project inv t m s) = linterm t m s /\ length (project inv t m s) = t.
Proof. exact (project_solves inv t m s). Qed.
Print Assumptions C10_ivector_solves_posterior_mean_equation.

Theorem C10_posterior_mean_equation_has_unique_solution (C D t : nat) (m : ivm) (s : gstat) (w w' : list R) :
  ivm_ok C D t m -> gstat_ok C D s -> length w = t -> length w' = t ->
  V.matvec (precision t m s) w = linterm t m s -> V.matvec (precision t m s) w' = linterm t m s -> w = w'.
Proof. exact (fun Hm Hs => project_unique C D t m s Hm Hs w w'). Qed.
Print Assumptions C10_posterior_mean_equation_has_unique_solution.

Theorem C10_precision_is_identity_plus_psd (C D t : nat) (m : ivm) (s : gstat) (d : list R) :
  ivm_ok C D t m -> gstat_ok C D s -> length d = t ->
  dotR d d <= dotR d (V.matvec (precision t m s) d).
Proof. exact (fun Hm Hs => precision_quadratic_form C D t m s Hm Hs d). Qed.
Print Assumptions C10_precision_is_identity_plus_psd.

Theorem C10_no_frames_give_zero_ivector inv (t : nat) (m : ivm) (s : gstat) :
  inv_ok inv t (precision t m s) ->
  Forall (fun n => n = 0) (g_n s) -> Forall (Forall (fun f => f = 0)) (g_px s) ->
  project inv t m s = V.vzero t.
Proof. exact (project_zero_stats inv t m s). Qed.
Print Assumptions C10_no_frames_give_zero_ivector.

Theorem C10_covariances_never_below_floor inv (D t : nat) (floor : R) (m : ivm) (st : acc) :
  Forall (Forall (fun v => floor <= v)) (iv_sigma (m_step inv D t true floor m st)).
Proof. exact (sigma_floor inv D t floor m st). Qed.
Print Assumptions C10_covariances_never_below_floor.

Theorem C10_covariances_untouched_without_update inv (D t : nat) (floor : R) (m : ivm) (st : acc) :
  iv_sigma (m_step inv D t false floor m st) = iv_sigma m.
Proof. exact (sigma_unchanged inv D t floor m st). Qed.
Print Assumptions C10_covariances_untouched_without_update.

(* EM for a rank-1 total-variability subspace (t = 1), covariances held fixed (update_sigma = False): the code's iteration is
   the exact EM step on the column T and never decreases the marginal likelihood of the training statistics
   sum_s [ b_s^2 / (2 L_s) - 1/2 ln L_s ]  (the scalar i-vector of every utterance integrated out); means and covariances
   are left alone.  Any numbers of components, features and utterances; fractional and zero counts allowed. *)
Theorem C10_rank1_iteration_is_the_em_step (inv : list (list R) -> list (list R)) (C D : nat) (floor : R) (m : ivm) (X : list gstat) :
  inv1_ok inv -> ivm_ok C D 1 m -> Forall (IVectorR.gstat_ok C D) X ->
  Forall (fun w2 => nth 0 (nth 0 w2 []) 0 <> 0) (a_w2 (e_step inv C D 1 m X)) ->
  let m' := m_step inv D 1 false floor m (e_step inv C D 1 m X) in
  iv_mu m' = iv_mu m /\ iv_sigma m' = iv_sigma m
  /\ tcol (iv_T m') = em_v_step (tcol (iv_T m)) (concat (iv_sigma m)) (map (utt_NG D m) X).
Proof. exact (iv_em_rank1 inv C D floor m X). Qed.
Print Assumptions C10_rank1_iteration_is_the_em_step.

Theorem C10_rank1_training_iteration_monotone (inv : list (list R) -> list (list R)) (C D : nat) (floor : R) (m m' : ivm) (X : list gstat) :
  inv1_ok inv -> ivm_ok C D 1 m -> Forall (IVectorR.gstat_ok C D) X ->
  Forall (fun w2 => 0 < nth 0 (nth 0 w2 []) 0) (a_w2 (e_step inv C D 1 m X)) ->
  em_iter inv C D 1 false floor [X] m = Some m' ->
  iv_marginal D m (iv_T m) X <= iv_marginal D m (iv_T m') X.
Proof. exact (iv_em_iter_monotone_rank1 inv C D floor m m' X). Qed.
Print Assumptions C10_rank1_training_iteration_monotone.

(* The same with covariance updating (update_sigma = True), no floor active: the code's iteration is the exact EM step on the pair
   (T, sigma) and never decreases the marginal likelihood of the training statistics as a function of both,
     sum_s [ b_s^2/(2 L_s) - 1/2 ln L_s - 1/2 sum_j ( N_sj ln sigma_j + Q_sj / sigma_j ) ],  Q_s the centred second-order statistics. *)
Theorem C10_rank1_iteration_with_sigma_is_the_em_step (inv : list (list R) -> list (list R)) (C D : nat) (floor : R) (m : ivm) (X : list gstat) :
  inv1_ok inv -> ivm_ok C D 1 m -> Forall (IVectorR.gstat_ok C D) X ->
  Forall (fun w2 => nth 0 (nth 0 w2 []) 0 <> 0) (a_w2 (e_step inv C D 1 m X)) ->
  sigma_floor_inactive inv C D floor m X ->
  let m' := m_step inv D 1 true floor m (e_step inv C D 1 m X) in
  iv_mu m' = iv_mu m
  /\ tcol (iv_T m') = em_v_step (tcol (iv_T m)) (concat (iv_sigma m)) (map (utt_NG D m) X)
  /\ concat (iv_sigma m') = em_s_step (tcol (iv_T m)) (concat (iv_sigma m)) (map (utt_NGQ D m) X).
Proof. exact (iv_em_rank1_sigma inv C D floor m X). Qed.
Print Assumptions C10_rank1_iteration_with_sigma_is_the_em_step.

Theorem C10_rank1_training_iteration_with_sigma_monotone (inv : list (list R) -> list (list R)) (C D : nat) (floor : R) (m : ivm) (X : list gstat) :
  inv1_ok inv -> ivm_ok C D 1 m -> Forall (IVectorR.gstat_ok C D) X -> 0 < floor ->
  Forall (fun w2 => 0 < nth 0 (nth 0 w2 []) 0) (a_w2 (e_step inv C D 1 m X)) ->
  Forall (fun n => 0 < n) (a_n (e_step inv C D 1 m X)) ->
  sigma_floor_inactive inv C D floor m X ->
  let m' := m_step inv D 1 true floor m (e_step inv C D 1 m X) in
  iv_marginal2 D m (iv_T m) (iv_sigma m) X <= iv_marginal2 D m (iv_T m') (iv_sigma m') X.
Proof. exact (iv_em_sigma_monotone_rank1 inv C D floor m X). Qed.
Print Assumptions C10_rank1_training_iteration_with_sigma_monotone.

(* Any dimension t of the total-variability subspace, fixed covariances (update_sigma = False): one training iteration (E-step over the
   training statistics, then the code's M-step, which solves T_c A_c = B_c) never lowers the marginal likelihood of the training
   statistics  sum_s [ 1/2 b_s' P_s^-1 b_s - 1/2 ln det P_s ]  (the i-vector of every utterance integrated out), where
   ln det P = 2 sum_i ln L_ii for a Cholesky factor L of P supplied, like the inverse, by an oracle under a contract.
   The engine is the Gaussian KL inequality proved without determinants:  ln det B - ln det A <= tr(A^-1 B) - t. *)
Theorem C10_log_det_kl_inequality (t : nat) (A B L K S : list (list R)) :
  chol_fact t L A -> chol_fact t K B ->
  length S = t -> Forall (fun r => length r = t) S -> (forall v, length v = t -> V.matvec A (V.matvec S v) = v) ->
  2 * rsum (map (fun i => ln (nth i (nth i K []) 0)) (seq 0 t)) - 2 * rsum (map (fun i => ln (nth i (nth i L []) 0)) (seq 0 t))
  <= rsum (map (fun i => nth i (nth i (V.matmul t S B) []) 0) (seq 0 t)) - INR t.
Proof. exact (logdet_kl t A B L K S). Qed.
Print Assumptions C10_log_det_kl_inequality.

Theorem C10_training_iteration_monotone_any_dimension (inv chol : list (list R) -> list (list R)) (C D t : nat) (floor : R) (m : ivm) (X : list gstat) :
  ivm_ok C D t m -> Forall (IVectorR.gstat_ok C D) X ->
  oracles_ok inv chol t m X ->
  let st := e_step inv C D t m X in
  (forall c, (c < C)%nat -> mat_any (nth c (a_w2 st) []) = true /\ inv_ok inv t (V.transpose t (nth c (a_w2 st) []))) ->
  let m' := m_step inv D t false floor m st in
  oracles_ok inv chol t m' X ->
  iv_marginal_t inv chol t m X <= iv_marginal_t inv chol t m' X.
Proof. exact (iv_em_monotone_general inv chol C D t floor m X). Qed.
Print Assumptions C10_training_iteration_monotone_any_dimension.

Theorem C10_training_entry_point_monotone_any_dimension (inv chol : list (list R) -> list (list R)) (C D t : nat) (floor : R) (m m' : ivm) (X : list gstat) :
  ivm_ok C D t m -> Forall (IVectorR.gstat_ok C D) X ->
  oracles_ok inv chol t m X ->
  (forall c, (c < C)%nat -> mat_any (nth c (a_w2 (e_step inv C D t m X)) []) = true
                            /\ inv_ok inv t (V.transpose t (nth c (a_w2 (e_step inv C D t m X)) []))) ->
  em_iter inv C D t false floor [X] m = Some m' ->
  oracles_ok inv chol t m' X ->
  iv_marginal_t inv chol t m X <= iv_marginal_t inv chol t m' X.
Proof. exact (iv_em_iter_monotone_general inv chol C D t floor m m' X). Qed.
Print Assumptions C10_training_entry_point_monotone_any_dimension.

Example C10_cholesky_contract_is_satisfiable : chol_fact 2 [[2; 0]; [1; 3]] [[4; 2]; [2; 10]].
Proof. exact chol_fact_example. Qed.

(* Any dimension t WITH covariance updating (update_sigma = True), no floor active: the iteration never lowers the marginal likelihood of the
   training statistics as a function of the pair (T, sigma),
     sum_s [ 1/2 b_s' P_s^-1 b_s - 1/2 ln det P_s - 1/2 sum_cd ( N_sc ln sigma_cd + Q_scd / sigma_cd ) ]. *)
Theorem C10_training_iteration_with_sigma_monotone_any_dimension (inv chol : list (list R) -> list (list R)) (C D t : nat) (floor : R) (m : ivm) (X : list gstat) :
  ivm_ok C D t m -> Forall (IVectorR.gstat_ok C D) X -> 0 < floor ->
  oracles_ok inv chol t m X ->
  let st := e_step inv C D t m X in
  (forall c, (c < C)%nat -> mat_any (nth c (a_w2 st) []) = true /\ inv_ok inv t (V.transpose t (nth c (a_w2 st) []))) ->
  Forall (fun n => 0 < n) (a_n st) ->
  let m' := m_step inv D t true floor m st in
  Forall (Forall (fun v => floor < v)) (iv_sigma m') ->
  oracles_ok inv chol t m' X ->
  iv_mu m' = iv_mu m
  /\ iv_marginal2_t inv chol t m X <= iv_marginal2_t inv chol t m' X.
Proof. exact (iv_em_sigma_monotone_general inv chol C D t floor m X). Qed.
Print Assumptions C10_training_iteration_with_sigma_monotone_any_dimension.

Theorem C10_training_entry_point_with_sigma_monotone_any_dimension (inv chol : list (list R) -> list (list R)) (C D t : nat) (floor : R) (m m' : ivm) (X : list gstat) :
  ivm_ok C D t m -> Forall (IVectorR.gstat_ok C D) X -> 0 < floor ->
  oracles_ok inv chol t m X ->
  (forall c, (c < C)%nat -> mat_any (nth c (a_w2 (e_step inv C D t m X)) []) = true
                            /\ inv_ok inv t (V.transpose t (nth c (a_w2 (e_step inv C D t m X)) []))) ->
  Forall (fun n => 0 < n) (a_n (e_step inv C D t m X)) ->
  em_iter inv C D t true floor [X] m = Some m' ->
  Forall (Forall (fun v => floor < v)) (iv_sigma m') ->
  oracles_ok inv chol t m' X ->
  iv_marginal2_t inv chol t m X <= iv_marginal2_t inv chol t m' X.
Proof. exact (iv_em_iter_sigma_monotone_general inv chol C D t floor m m' X). Qed.
Print Assumptions C10_training_entry_point_with_sigma_monotone_any_dimension.

(* "components with zero count": a component that receives no count (and no first-order statistics) from any training utterance takes the
   other branch of the code's M-step (T_c := 0) and does not enter the marginal likelihood; the iteration is monotone with such
   components present (fixed covariances). *)
Theorem C10_training_iteration_monotone_with_unoccupied_components (inv chol : list (list R) -> list (list R)) (C D t : nat) (floor : R) (m : ivm) (X : list gstat) :
  ivm_ok C D t m -> Forall (IVectorR.gstat_ok C D) X ->
  oracles_ok inv chol t m X ->
  let st := e_step inv C D t m X in
  (forall c, (c < C)%nat ->
     (mat_any (nth c (a_w2 st) []) = true /\ inv_ok inv t (V.transpose t (nth c (a_w2 st) [])))
     \/ unoccupied D X c) ->
  let m' := m_step inv D t false floor m st in
  oracles_ok inv chol t m' X ->
  iv_marginal_t inv chol t m X <= iv_marginal_t inv chol t m' X.
Proof. exact (iv_em_monotone_general_zero_counts inv chol C D t floor m X). Qed.
Print Assumptions C10_training_iteration_monotone_with_unoccupied_components.

Theorem C10_unoccupied_component_takes_the_zero_branch (inv : list (list R) -> list (list R)) (C D t : nat) (m : ivm) (X : list gstat) (c : nat) :
  ivm_ok C D t m -> Forall (IVectorR.gstat_ok C D) X -> (c < C)%nat -> unoccupied D X c ->
  mat_any (nth c (a_w2 (e_step inv C D t m X)) []) = false.
Proof. exact (unoccupied_takes_zero_branch inv C D t m X c). Qed.
Print Assumptions C10_unoccupied_component_takes_the_zero_branch.
