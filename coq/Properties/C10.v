(* C10  I-vectors are posterior means; covariance floor.  (EM monotonicity: see DESIGN.md - partial.) *)
From Coq Require Import Reals List.
From BLE Require Import Num.InstR Model.IVector Proofs.RLemmas Proofs.IVectorR.
Import ListNotations IR.
Open Scope R_scope.

Theorem C10_ivector_solves_posterior_mean_equation inv (t : nat) (m : ivm) (s : gstat) :
  inv_ok inv t (precision t m s) ->
  V.matvec (precision t m s) (project inv t m s) = linterm t m s /\ length (project inv t m s) = t.
Proof. exact (project_solves inv t m s). Qed.
Print Assumptions C10_ivector_solves_posterior_mean_equation.

Theorem C10_posterior_mean_equation_has_unique_solution (C D t : nat) (m : ivm) (s : gstat) (w w' : list R) :
  ivm_ok C D t m -> gstat_ok C D s -> length w = t -> length w' = t ->
  V.matvec (precision t m s) w = linterm t m s -> V.matvec (precision t m s) w' = linterm t m s -> w = w'.
Proof. exact (fun Hm Hs => project_unique C D t m s Hm Hs w w'). Qed.
Print Assumptions C10_posterior_mean_equation_has_unique_solution.

Theorem C10_precision_is_identity_plus_psd (C D t : nat) (m : ivm) (s : gstat) (d : list R) :
  ivm_ok C D t m -> gstat_ok C D s -> length d = t ->
  dotR d d <= dotR d (V.matvec (precision t m s) d).
Proof. exact (fun Hm Hs => precision_quadratic_form C D t m s Hm Hs d). Qed.
Print Assumptions C10_precision_is_identity_plus_psd.

Theorem C10_no_frames_give_zero_ivector inv (t : nat) (m : ivm) (s : gstat) :
  inv_ok inv t (precision t m s) ->
  Forall (fun n => n = 0) (g_n s) -> Forall (Forall (fun f => f = 0)) (g_px s) ->
  project inv t m s = V.vzero t.
Proof. exact (project_zero_stats inv t m s). Qed.
Print Assumptions C10_no_frames_give_zero_ivector.

Theorem C10_covariances_never_below_floor inv (D t : nat) (floor : R) (m : ivm) (st : acc) :
  Forall (Forall (fun v => floor <= v)) (iv_sigma (m_step inv D t true floor m st)).
Proof. exact (sigma_floor inv D t floor m st). Qed.
Print Assumptions C10_covariances_never_below_floor.

Theorem C10_covariances_untouched_without_update inv (D t : nat) (floor : R) (m : ivm) (st : acc) :
  iv_sigma (m_step inv D t false floor m st) = iv_sigma m.
Proof. exact (sigma_unchanged inv D t floor m st). Qed.
Print Assumptions C10_covariances_untouched_without_update.
