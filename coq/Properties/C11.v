(* C11  ISV/JFA scores are channel-compensated linear scores, same via every entry point. *)
From Coq Require Import Reals List.
From BLE Require Import Num.InstR Model.FA Model.LinScore Model.FAScore Proofs.RLemmas Proofs.FAScoreR.
Import ListNotations SR SR.F.
Open Scope R_scope.

Theorem C11_score_is_normalised_linear_score inv (eps : R) (rU D : nat) (u : ubm) (Fa : fa) (y : option (list R)) (z : list R)
        (X : list gstat) (frames : R) :
  let C := length (u_mu u) in
  score inv eps rU D u Fa y z X frames
  = L.score1 eps true (chunk D C (client_mean u Fa y z)) (u_mu u) (u_var u)
             (chunk D C (V.matvec (fU Fa) (estimate_x inv rU D u Fa X)))
             {| L.ts_n := sum_n C X; L.ts_px := sum_f C D X; L.ts_t := frames |}.
Proof. exact (score_is_linear_score inv eps rU D u Fa y z X frames). Qed.
Print Assumptions C11_score_is_normalised_linear_score.

Theorem C11_channel_factor_from_pooled_statistics inv (rU D : nat) (u : ubm) (Fa : fa) (X : list gstat) :
  Forall (gshape (length (u_mu u)) D) X ->
  estimate_x inv rU D u Fa [pool (length (u_mu u)) D X] = estimate_x inv rU D u Fa X.
Proof. exact (estimate_x_pooled inv rU D u Fa X). Qed.
Print Assumptions C11_channel_factor_from_pooled_statistics.

Theorem C11_several_statistics_score_as_their_sum inv (eps : R) (rU D : nat) (u : ubm) (Fa : fa) (y : option (list R)) (z : list R)
        (X : list gstat) (frames : R) :
  Forall (gshape (length (u_mu u)) D) X ->
  score inv eps rU D u Fa y z [pool (length (u_mu u)) D X] frames = score inv eps rU D u Fa y z X frames.
Proof. exact (score_pools inv eps rU D u Fa y z X frames). Qed.
Print Assumptions C11_several_statistics_score_as_their_sum.

Theorem C11_score_depends_on_pooled_sums_only inv (eps : R) (rU D : nat) (u : ubm) (Fa : fa) (y : option (list R)) (z : list R)
        (X X' : list gstat) (frames : R) :
  sum_n (length (u_mu u)) X = sum_n (length (u_mu u)) X' -> sum_f (length (u_mu u)) D X = sum_f (length (u_mu u)) D X' ->
  score inv eps rU D u Fa y z X frames = score inv eps rU D u Fa y z X' frames.
Proof. exact (score_depends_on_sums inv eps rU D u Fa y z X X' frames). Qed.
Print Assumptions C11_score_depends_on_pooled_sums_only.

Example C11_nonvacuous : gshape 2 1 {| g_n := [1; 2]; g_px := [[3]; [4]] |}.
Proof. exact gshape_example. Qed.
