(* C12  Training from statistics is independent of bag partitioning and scheduling. *)
From Coq Require Import Reals List.
From Coq Require String.
From BLE Require Import Num.InstR Model.IVector Generated.Facts Proofs.RLemmas Proofs.IVectorR Proofs.Bag Proofs.FactsDefs Proofs.Sched.
Import ListNotations IR.
Open Scope R_scope.

(* the pairwise reduction of ivector.py (stats[i] + stats[len//2+i], odd element carried) returns the plain
   sum for EVERY number of partitions: both the odd and the even branch, at every level *)
Theorem C12_tree_reduction_is_the_sum (C D t : nat) : forall fuel l, (length l <= S fuel)%nat -> l <> [] ->
  Forall (acc_ok C D t) l -> tree_reduce fuel l (zero_acc C D t) = Some (acc_sum C D t l).
Proof. exact (tree_reduce_eq_sum C D t). Qed.
Print Assumptions C12_tree_reduction_is_the_sum.

(* every partition's contribution enters the M-step exactly once, whatever the partitioning *)
Theorem C12_partition_contributions_add_up inv (C D t : nat) (m : ivm) (parts : list (list gstat)) :
  Forall (fun s => acc_ok C D t (acc1 inv t m s)) (concat parts) ->
  acc_sum C D t (map (e_step inv C D t m) parts) = e_step inv C D t m (concat parts).
Proof. exact (e_step_parts inv C D t m parts). Qed.
Print Assumptions C12_partition_contributions_add_up.

Theorem C12_ivector_iteration_independent_of_partitioning inv (C D t : nat) (upd : bool) (floor : R) (m : ivm) (parts : list (list gstat)) :
  parts <> [] -> Forall (fun s => acc_ok C D t (acc1 inv t m s)) (concat parts) ->
  em_iter inv C D t upd floor parts m = em_iter inv C D t upd floor [concat parts] m.
Proof. exact (em_iter_partition_independent inv C D t upd floor m parts). Qed.
Print Assumptions C12_ivector_iteration_independent_of_partitioning.

Theorem C12_accumulators_commutative_monoid (C D t : nat) (a b c : acc) :
  acc_add a b = acc_add b a /\ acc_add a (acc_add b c) = acc_add (acc_add a b) c
  /\ (acc_ok C D t a -> acc_add (zero_acc C D t) a = a).
Proof. exact (conj (acc_add_comm a b) (conj (acc_add_assoc a b c) (acc_add_zero_l C D t a))). Qed.
Print Assumptions C12_accumulators_commutative_monoid.

(* ISV / JFA: the bag is regrouped into per-class lists by walking the partitions with one running index into the
   label list; the groups depend only on the concatenation of the partitions (any number and sizes, mixed classes,
   single-element and empty partitions, unsorted labels), and every statistic lands in exactly one group *)
Theorem C12_regrouping_independent_of_partitioning (A : Type) (K : nat) (parts parts' : list (list A)) (y : list nat) :
  concat parts = concat parts' -> (length (concat parts) <= length y)%nat -> regroup A K parts y = regroup A K parts' y.
Proof. exact (regroup_partition_independent A K parts parts' y). Qed.
Print Assumptions C12_regrouping_independent_of_partitioning.

Theorem C12_every_statistic_enters_exactly_one_class (A : Type) (K : nat) (parts : list (list A)) (y : list nat) :
  length (concat parts) = length y -> Forall (fun l => (l < K)%nat) y ->
  fold_right Nat.add 0%nat (map (@length A) (regroup A K parts y)) = length (concat parts).
Proof. exact (regroup_counts A K parts y). Qed.
Print Assumptions C12_every_statistic_enters_exactly_one_class.

(* scheduling and isolation: the C04 theorems, instantiated for the bag trainers *)
Theorem C12_any_valid_task_order (V : Type) (dflt : V) (g : graph V) (sched : list nat) :
  wf V g -> valid V dflt g (empty V) sched ->
  forall k, In k sched -> exec V dflt g sched k = Some (nth k (den V dflt g) dflt).
Proof. exact (exec_any_order V dflt g sched). Qed.
Print Assumptions C12_any_valid_task_order.

Theorem C12_ivector_copyback_covers_mstep_writes :
  extraction_error = false /\ ivector_copyback_ok = true /\ ivector_mstep_writes <> [].
Proof. destruct generated_copyback_obligations as (H1 & _ & _ & H2 & _ & _ & H3). exact (conj H1 (conj H2 H3)). Qed.
Print Assumptions C12_ivector_copyback_covers_mstep_writes.
