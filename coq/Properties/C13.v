(* C13  Trained models are valid: weights on the simplex (up to the count floor), variances above floors. *)
From Coq Require Import Reals List.
From BLE Require Import Num.InstR Model.GMM Model.KMeans Model.IVector Proofs.RLemmas Proofs.GMMLik Proofs.GMMStats Proofs.GMMMap
     Proofs.Valid Proofs.ValidFit Proofs.ValidMap Proofs.KMeansR Proofs.IVectorR.
Import ListNotations.
Open Scope R_scope.

(* GMM variances are at or above their floors after any M-step that stores variances (ML or MAP, any switches) *)
Theorem C13_variances_at_or_above_floors (mc : MR.machine) (v : list (list R)) (c d : nat) :
  (c < length (MR.thr mc))%nat -> (c < length v)%nat -> (d < length (nth c (MR.thr mc) []))%nat -> (d < length (nth c v []))%nat ->
  nth d (nth c (MR.thr mc) []) 0 <= nth d (nth c (MR.vars (MR.g (MR.set_vars mc v))) []) 0.
Proof. exact (set_vars_respects_floors mc v c d). Qed.
Print Assumptions C13_variances_at_or_above_floors.

(* ML weights: positive, and summing to one up to the documented count floor: 1 <= sum <= 1 + C*eps/T *)
Theorem C13_ml_weights_on_the_simplex_up_to_count_floor (eps T : R) (ns : list R) :
  0 < eps -> 0 < T -> Forall (fun n => 0 <= n) ns -> rsum ns = T ->
  let w := map (fun n => MR.V.fmax n eps / T) ns in
  Forall (fun x => eps / T <= x) w /\ 1 <= rsum w <= 1 + INR (length ns) * eps / T.
Proof. exact (ml_weights_bounds eps T ns). Qed.
Print Assumptions C13_ml_weights_on_the_simplex_up_to_count_floor.

Theorem C13_ml_m_step_stores_those_weights (sw : MR.switches) (eps : R) (st : MR.stats) (mc : MR.machine) : MR.upd_ws sw = true ->
  MR.ws (MR.g (MR.ml_m_step sw eps st mc)) = map (fun n => MR.V.fmax n eps / INR (MR.s_t st)) (MR.s_n st).
Proof. exact (ml_m_step_weights sw eps st mc). Qed.
Print Assumptions C13_ml_m_step_stores_those_weights.

(* MAP weights sum to exactly one *)
Theorem C13_map_weights_sum_to_one sq sw eps rel al prior st mc : MR.upd_ws sw = true ->
  let w0 := MR.V.map3 (fun a n w => MR.map_w0 a n (INR (MR.s_t st)) w) (MR.map_alpha rel al st) (MR.s_n st) (MR.ws prior) in
  rsum w0 <> 0 -> rsum (MR.ws (MR.g (MR.map_m_step sq sw eps rel al prior st mc))) = 1.
Proof. exact (map_m_step_weights sq sw eps rel al prior st mc). Qed.
Print Assumptions C13_map_weights_sum_to_one.

(* k-means: an empty cluster keeps its centroid, every other centroid is a mean: no 0/0 *)
Theorem C13_kmeans_centroids_defined (nf : nat) (cents X cents' : list (list R)) (crit : R) :
  KR.em_iter nf [X] cents = Some (cents', crit) ->
  length cents' = length cents
  /\ crit = J cents X / INR (length X)
  /\ forall k, (k < length cents)%nat ->
       nth k cents' [] = (if Nat.eqb (length (KR.members cents k X)) 0 then nth k cents [] else vmean nf (KR.members cents k X)).
Proof. exact (em_iter_spec nf cents X cents' crit). Qed.
Print Assumptions C13_kmeans_centroids_defined.

(* i-vector covariances at or above the floor, zero-count components included *)
Theorem C13_ivector_covariances_at_or_above_floor inv (D t : nat) (floor : R) (m : IR.ivm) (st : IR.acc) :
  Forall (Forall (fun v => floor <= v)) (IR.iv_sigma (IR.m_step inv D t true floor m st)).
Proof. exact (sigma_floor inv D t floor m st). Qed.
Print Assumptions C13_ivector_covariances_at_or_above_floor.

(* Validity is an INVARIANT of ML training: a machine with C components of nf features, positive weights and variances at or
   above positive floors stays such a machine after every M-step on any non-empty data set, for any switches, floors binding
   or not - and therefore after a whole training run, however many iterations it took; such a machine is a proper mixture
   density (wf_gmm: the hypothesis of every likelihood theorem of C01/C03). *)
Theorem C13_ml_m_step_preserves_validity (C nf : nat) (sw : MR.switches) (eps : R) (X : list (list R)) (mc : MR.machine) :
  (0 < C)%nat -> X <> [] -> GMMStats.rows_ok nf X -> 0 < eps -> machine_ok C nf mc ->
  machine_ok C nf (MR.ml_m_step sw eps (MR.e_step nf (MR.g mc) X) mc).
Proof. exact (ml_m_step_ok C nf sw eps X mc). Qed.
Print Assumptions C13_ml_m_step_preserves_validity.

Theorem C13_ml_training_run_ends_in_a_valid_model (C nf : nat) (sw : MR.switches) (eps : R) (cthr : option R) (cap : nat)
    (X : list (list R)) (mc mc' : MR.machine) (n : nat) (hist : list R) :
  (0 < C)%nat -> X <> [] -> GMMStats.rows_ok nf X -> 0 < eps -> machine_ok C nf mc ->
  MR.fit cap MR.ML sw eps cthr nf [X] mc = Some (mc', n, hist) ->
  machine_ok C nf mc' /\ wf_gmm nf (MR.g mc').
Proof. exact (fit_ok C nf sw eps cthr cap X mc mc' n hist). Qed.
Print Assumptions C13_ml_training_run_ends_in_a_valid_model.

(* The same for MAP adaptation and for any trainer: Reynolds adaptation with a positive relevance factor or a fixed ratio in
   [0, 1), a prior of the same shape with positive weights; for the variance blend of today's code (sq = false, known finding D2)
   and for the repaired one alike - whatever the blend yields, the variances setter lifts it to the positive floors. *)
Theorem C13_map_m_step_preserves_validity (C nf : nat) (sq : bool) (sw : MR.switches) (eps : R) (rel : option R) (al : R) (prior : MR.gmm)
    (X : list (list R)) (mc : MR.machine) :
  (0 < C)%nat -> X <> [] -> GMMStats.rows_ok nf X -> 0 < eps -> machine_ok C nf mc -> prior_ok C nf prior -> coeff_ok rel al ->
  machine_ok C nf (MR.map_m_step sq sw eps rel al prior (MR.e_step nf (MR.g mc) X) mc).
Proof. exact (map_m_step_ok C nf sq sw eps rel al prior X mc). Qed.
Print Assumptions C13_map_m_step_preserves_validity.

Theorem C13_any_training_run_ends_in_a_valid_model (C nf : nat) (tr : MR.trainer) (sw : MR.switches) (eps : R) (cthr : option R) (cap : nat)
    (X : list (list R)) (mc mc' : MR.machine) (n : nat) (hist : list R) :
  (0 < C)%nat -> X <> [] -> GMMStats.rows_ok nf X -> 0 < eps -> machine_ok C nf mc -> trainer_ok C nf tr ->
  MR.fit cap tr sw eps cthr nf [X] mc = Some (mc', n, hist) ->
  machine_ok C nf mc' /\ wf_gmm nf (MR.g mc').
Proof. exact (fit_ok_any_trainer C nf tr sw eps cthr cap X mc mc' n hist). Qed.
Print Assumptions C13_any_training_run_ends_in_a_valid_model.
