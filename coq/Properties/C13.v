(* C13  Trained models are valid: weights on the simplex (up to the count floor), variances above floors. *)
From Coq Require Import Reals List.
From BLE Require Import Num.InstR Model.GMM Model.KMeans Model.IVector Proofs.RLemmas Proofs.GMMLik Proofs.GMMStats Proofs.GMMMap
     Proofs.Valid Proofs.KMeansR Proofs.IVectorR.
Import ListNotations.
Open Scope R_scope.

(* GMM variances are at or above their floors after any M-step that stores variances (ML or MAP, any switches) *)
Theorem C13_variances_at_or_above_floors (mc : MR.machine) (v : list (list R)) (c d : nat) :
  (c < length (MR.thr mc))%nat -> (c < length v)%nat -> (d < length (nth c (MR.thr mc) []))%nat -> (d < length (nth c v []))%nat ->
  nth d (nth c (MR.thr mc) []) 0 <= nth d (nth c (MR.vars (MR.g (MR.set_vars mc v))) []) 0.
Proof. exact (set_vars_respects_floors mc v c d). Qed.
Print Assumptions C13_variances_at_or_above_floors.

(* ML weights: positive, and summing to one up to the documented count floor: 1 <= sum <= 1 + C*eps/T *)
Theorem C13_ml_weights_on_the_simplex_up_to_count_floor (eps T : R) (ns : list R) :
  0 < eps -> 0 < T -> Forall (fun n => 0 <= n) ns -> rsum ns = T ->
  let w := map (fun n => MR.V.fmax n eps / T) ns in
  Forall (fun x => eps / T <= x) w /\ 1 <= rsum w <= 1 + INR (length ns) * eps / T.
Proof. exact (ml_weights_bounds eps T ns). Qed.
Print Assumptions C13_ml_weights_on_the_simplex_up_to_count_floor.

Theorem C13_ml_m_step_stores_those_weights (sw : MR.switches) (eps : R) (st : MR.stats) (mc : MR.machine) : MR.upd_ws sw = true ->
  MR.ws (MR.g (MR.ml_m_step sw eps st mc)) = map (fun n => MR.V.fmax n eps / INR (MR.s_t st)) (MR.s_n st).
Proof. exact (ml_m_step_weights sw eps st mc). Qed.
Print Assumptions C13_ml_m_step_stores_those_weights.

(* MAP weights sum to exactly one *)
Theorem C13_map_weights_sum_to_one sq sw eps rel al prior st mc : MR.upd_ws sw = true ->
  let w0 := MR.V.map3 (fun a n w => MR.map_w0 a n (INR (MR.s_t st)) w) (MR.map_alpha rel al st) (MR.s_n st) (MR.ws prior) in
  rsum w0 <> 0 -> rsum (MR.ws (MR.g (MR.map_m_step sq sw eps rel al prior st mc))) = 1.
Proof. exact (map_m_step_weights sq sw eps rel al prior st mc). Qed.
Print Assumptions C13_map_weights_sum_to_one.

(* k-means: an empty cluster keeps its centroid, every other centroid is a mean: no 0/0 *)
Theorem C13_kmeans_centroids_defined (nf : nat) (cents X cents' : list (list R)) (crit : R) :
  KR.em_iter nf [X] cents = Some (cents', crit) ->
  length cents' = length cents
  /\ crit = J cents X / INR (length X)
  /\ forall k, (k < length cents)%nat ->
       nth k cents' [] = (if Nat.eqb (length (KR.members cents k X)) 0 then nth k cents [] else vmean nf (KR.members cents k X)).
Proof. exact (em_iter_spec nf cents X cents' crit). Qed.
Print Assumptions C13_kmeans_centroids_defined.

(* i-vector covariances at or above the floor, zero-count components included *)
Theorem C13_ivector_covariances_at_or_above_floor inv (D t : nat) (floor : R) (m : IR.ivm) (st : IR.acc) :
  Forall (Forall (fun v => floor <= v)) (IR.iv_sigma (IR.m_step inv D t true floor m st)).
Proof. exact (sigma_floor inv D t floor m st). Qed.
Print Assumptions C13_ivector_covariances_at_or_above_floor.
