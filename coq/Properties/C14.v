(* C14  WCCN/whitening map covariance to identity; WCCN depends only on the partition. *)
From Coq Require Import Reals List Permutation.
From BLE Require Import Num.InstR Model.Linear Proofs.RLemmas Proofs.LinearR.
Import ListNotations NR.
Open Scope R_scope.

Theorem C14_whitened_mean_is_zero (D : nat) (X W : list (list R)) : X <> [] -> rows_ok D X -> mat_ok D W ->
  mean_rows D (project D (mean_rows D X) W X) = V.vzero D.
Proof. exact (whiten_mean_zero D X W). Qed.
Print Assumptions C14_whitened_mean_is_zero.

(* under the contracts of the external inverse and lower Cholesky factor *)
Theorem C14_whitened_covariance_is_identity (inv chol : list (list R) -> list (list R)) (D : nat) (X : list (list R)) :
  (2 <= length X)%nat -> rows_ok D X ->
  inv_ok D (cov D X) (inv (cov D X)) -> chol_ok D (inv (cov D X)) (chol (inv (cov D X))) ->
  let '(mu, W) := whiten_fit inv chol D X in
  cov D (project D mu W X) = V.eye D.
Proof. exact (whiten_cov_identity inv chol D X). Qed.
Print Assumptions C14_whitened_covariance_is_identity.

Theorem C14_wccn_within_scatter_over_K_is_identity (inv chol : list (list R) -> list (list R)) (D : nat) (cl : list (list (list R))) :
  cl <> [] -> Forall (fun Xk => Xk <> [] /\ rows_ok D Xk) cl ->
  let Sw := V.mscale (1 / INR (length cl)) (within_scatter D cl) in
  inv_ok D Sw (inv Sw) -> chol_ok D (inv Sw) (chol (inv Sw)) ->
  V.mscale (1 / INR (length cl)) (within_scatter D (wccn_apply D (wccn_fit inv chol D cl) cl)) = V.eye D.
Proof. exact (wccn_scatter_identity inv chol D cl). Qed.
Print Assumptions C14_wccn_within_scatter_over_K_is_identity.

(* core algebra behind both: with M the inverse of C and L the lower Cholesky factor of M, L^T C L = I *)
Theorem C14_Lt_C_L_is_identity (D : nat) (Cm M L : list (list R)) :
  mat_ok D Cm -> inv_ok D Cm M -> chol_ok D M L -> mmul D (mT D L) (mmul D Cm L) = V.eye D.
Proof. exact (Lt_C_L_identity D Cm M L). Qed.
Print Assumptions C14_Lt_C_L_is_identity.

(* the projection depends only on which samples share a class: not on the order in which the label set is
   enumerated, not on the order of the samples, not on the label values *)
Theorem C14_wccn_depends_only_on_partition (inv chol : list (list R) -> list (list R)) (D : nat) (cl cl' cl'' : list (list (list R))) :
  Forall (rows_ok D) cl -> Permutation cl cl' -> Forall2 (@Permutation (list R)) cl' cl'' ->
  wccn_fit inv chol D cl = wccn_fit inv chol D cl''.
Proof. exact (wccn_partition_only inv chol D cl cl' cl''). Qed.
Print Assumptions C14_wccn_depends_only_on_partition.

Theorem C14_label_values_do_not_matter {A} (f : nat -> nat) (order y : list nat) (X : list A) :
  (forall a b, In a (order ++ y) -> In b (order ++ y) -> f a = f b -> a = b) ->
  group (map f order) (map f y) X = group order y X.
Proof. exact (group_relabel f order y X). Qed.
Print Assumptions C14_label_values_do_not_matter.

Theorem C14_label_enumeration_order_permutes_groups {A} (order order' y : list nat) (X : list A) :
  Permutation order order' -> Permutation (group order y X) (group order' y X).
Proof. exact (group_order_perm order order' y X). Qed.
Print Assumptions C14_label_enumeration_order_permutes_groups.
