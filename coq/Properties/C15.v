From Coq Require Import Reals List.
Theorem placeholder : True. Proof. exact I. Qed.
Print Assumptions placeholder.
