(* C15  Training is equivariant, scoring invariant, under affine feature rescaling/shift. *)
From Coq Require Import Reals List.
From BLE Require Import Model.IVector Proofs.IVectorR Proofs.IVAffine.
From BLE Require Import Model.FA Proofs.FAEnroll Proofs.FAAffine.
From BLE Require Import Num.InstR Model.GMM Model.KMeans Model.LinScore Proofs.RLemmas Proofs.GMMLik Proofs.GMMStats Proofs.KMeansR Proofs.LinScoreR Proofs.Affine Proofs.GMMFit Proofs.KMeansFit Proofs.AffineStop Proofs.AffineRun Proofs.KMeansRigid.
Import ListNotations.
Open Scope R_scope.

Theorem C15_log_likelihood_shifts_by_minus_sum_log_abs_scale (D : nat) (a b : list R) (m : MR.gmm) (x : list R) :
  scale_ok D a b -> length x = D -> wf_gmm D m ->
  length (MR.ws m) = length (MR.mus m) -> length (MR.ws m) = length (MR.vars m) ->
  MR.ll (aff_gmm a b m) (aff a b x) = MR.ll m x - sumlnabs a.
Proof. exact (ll_affine D a b m x). Qed.
Print Assumptions C15_log_likelihood_shifts_by_minus_sum_log_abs_scale.

Theorem C15_responsibilities_invariant (D : nat) (a b : list R) (m : MR.gmm) (x : list R) (c : MR.comp) :
  scale_ok D a b -> length x = D -> wf_gmm D m -> wf_comp D c ->
  length (MR.ws m) = length (MR.mus m) -> length (MR.ws m) = length (MR.vars m) ->
  let '(w, mu, v) := c in
  MR.resp (aff_gmm a b m) (aff a b x) (w, aff a b mu, aff_var a v) = MR.resp m x c.
Proof. exact (resp_affine D a b m x c). Qed.
Print Assumptions C15_responsibilities_invariant.

Theorem C15_statistics_equivariant (D : nat) (a b : list R) (m : MR.gmm) (X : list (list R)) :
  scale_ok D a b -> GMMStats.rows_ok D X -> wf_gmm D m ->
  length (MR.ws m) = length (MR.mus m) -> length (MR.ws m) = length (MR.vars m) ->
  let st := MR.e_step D m X in
  let st' := MR.e_step D (aff_gmm a b m) (map (aff a b) X) in
  MR.s_t st' = MR.s_t st /\ MR.s_n st' = MR.s_n st
  /\ MR.s_px st' = MR.V.map2 (fun sx n => MR.V.map3 (fun ad bd s => ad * s + bd * n) a b sx) (MR.s_px st) (MR.s_n st)
  /\ MR.s_pxx st' = MR.V.map3 (fun sxx sx n => MR.V.map3 (fun ab s2 s1 => fst ab * fst ab * s2 + 2 * fst ab * snd ab * s1 + snd ab * snd ab * n)
                                                (combine a b) sxx sx) (MR.s_pxx st) (MR.s_px st) (MR.s_n st)
  /\ MR.s_ll st' = MR.s_ll st - INR (length X) * sumlnabs a.
Proof. exact (e_step_affine D a b m X). Qed.
Print Assumptions C15_statistics_equivariant.

(* one ML EM step on rescaled data from the rescaled model = the rescaled result: means a*mu+b, variances a^2 var, weights unchanged *)
Theorem C15_ml_training_step_equivariant (D : nat) (a b : list R) (eps : R) (m : MR.gmm) (X : list (list R)) (th : list (list R)) (uw : bool) :
  scale_ok D a b -> X <> [] -> GMMStats.rows_ok D X -> wf_gmm D m -> 0 < eps ->
  length (MR.ws m) = length (MR.mus m) -> length (MR.ws m) = length (MR.vars m) ->
  length th = length (MR.ws m) -> Forall (fun r => length r = D) th ->
  let sw := {| MR.upd_means := true; MR.upd_vars := true; MR.upd_ws := uw |} in
  let st := MR.e_step D m X in
  let st' := MR.e_step D (aff_gmm a b m) (map (aff a b) X) in
  let mc := {| MR.g := m; MR.thr := th |} in
  let mc' := {| MR.g := aff_gmm a b m; MR.thr := map (aff_var a) th |} in
  floors_inactive_plain eps st mc ->
  MR.g (MR.ml_m_step sw eps st' mc') = aff_gmm a b (MR.g (MR.ml_m_step sw eps st mc)).
Proof. exact (ml_m_step_affine D a b eps m X th uw). Qed.
Print Assumptions C15_ml_training_step_equivariant.

Theorem C15_linear_scores_invariant (eps : R) (norm : bool) (C D : nat) (a b : list R) (model umu uvar off : list (list R)) (s : LR.tstat) :
  scale_ok D a b -> shape_ok C D model -> shape_ok C D umu -> shape_ok C D uvar -> shape_ok C D off -> tstat_ok C D s ->
  LR.score1 eps norm (aff_m a b model) (aff_m a b umu) (map (aff_var a) uvar) (scale_m a off) (aff_tstat a b s)
  = LR.score1 eps norm model umu uvar off s.
Proof. exact (score_affine_invariant eps norm C D a b model umu uvar off s). Qed.
Print Assumptions C15_linear_scores_invariant.

(* k-means under translation and uniform scaling: distances scale by s^2, assignments are unchanged *)
Theorem C15_kmeans_similarity (D : nat) (s : R) (t : list R) (cents : list (list R)) (c x : list R) :
  s <> 0 -> length t = D -> length x = D -> length c = D -> KMeansR.rows_ok D cents ->
  KR.sqdist (sim s t c) (sim s t x) = s * s * KR.sqdist c x
  /\ KR.closest (map (sim s t) cents) (sim s t x) = KR.closest cents x.
Proof.
  intros Hs Ht Hx Hc Hr. split.
  - apply (sqdist_similarity s t c x); congruence.
  - exact (closest_similarity D s t cents x Hs Ht Hx Hr).
Qed.
Print Assumptions C15_kmeans_similarity.

(* Stopping rules under a change of units.  k-means: a uniform scaling multiplies every reported criterion by s^2, translations and
   rotations leave it unchanged, and the relative-change test gives the same verdict.  GMM: every reported log-likelihood shifts by
   k = -sum ln|a| and the relative-change test on the shifted values is |prev - cur| / |prev + k| <= th - a different test.  The
   claim "the GMM stopping test is invariant under the shift" is REFUTED with a witness (known finding D14, DESIGN.md 9.4): with a
   convergence threshold the stopping iteration, hence the trained model, depends on the units of the features. *)
Theorem C15_kmeans_stopping_rule_invariant_under_scaling cthr c cur prev rest : c <> 0 -> prev <> 0 ->
  KMeansFit.stops cthr (map (Rmult c) (cur :: prev :: rest)) = KMeansFit.stops cthr (cur :: prev :: rest).
Proof. exact (kmeans_stop_rule_scale_invariant cthr c cur prev rest). Qed.
Print Assumptions C15_kmeans_stopping_rule_invariant_under_scaling.

Theorem C15_gmm_stopping_rule_after_rescaling th cur prev rest k :
  GMMFit.stops (Some th) (map (fun l => l + k) (cur :: prev :: rest)) = true <-> Rabs ((prev - cur) / (prev + k)) <= th.
Proof. exact (gmm_stop_after_shift th cur prev rest k). Qed.
Print Assumptions C15_gmm_stopping_rule_after_rescaling.

Theorem C15_gmm_stopping_rule_invariant_under_rescaling_refuted :
  exists th cur prev k, GMMFit.stops (Some th) [cur; prev] = true
                        /\ GMMFit.stops (Some th) (map (fun l => l + k) [cur; prev]) = false.
Proof. exact gmm_stop_rule_shift_invariant_refuted. Qed.
Print Assumptions C15_gmm_stopping_rule_invariant_under_rescaling_refuted.

(* i-vectors: with the extractor transformed like the features (UBM means a*mu+b, covariances a^2*sigma, row d of every T_c scaled
   by a_d) and the statistics of the transformed data, the posterior precision and linear term - hence the i-vector, whatever
   the external solver does with them - are unchanged; one training iteration with fixed covariances is equivariant. *)
Theorem C15_ivector_invariant (inv : list (list R) -> list (list R)) (C D t : nat) (a b : list R) (m : IR.ivm) (s : IR.gstat) :
  scale_ok D a b -> ivm_ok C D t m -> IVectorR.gstat_ok C D s ->
  IR.precision t (aff_ivm a b m) (aff_gstat a b s) = IR.precision t m s
  /\ IR.linterm t (aff_ivm a b m) (aff_gstat a b s) = IR.linterm t m s
  /\ IR.project inv t (aff_ivm a b m) (aff_gstat a b s) = IR.project inv t m s.
Proof.
  intros H1 H2 H3. split; [exact (precision_affine C D t a b m s H1 H2 H3)|].
  split; [exact (linterm_affine C D t a b m s H1 H2 H3)|exact (project_affine inv C D t a b m s H1 H2 H3)].
Qed.
Print Assumptions C15_ivector_invariant.

Theorem C15_ivector_training_iteration_equivariant (inv : list (list R) -> list (list R)) (C D t : nat) (floor : R) (a b : list R)
    (m : IR.ivm) (X : list IR.gstat) :
  scale_ok D a b -> ivm_ok C D t m -> Forall (IVectorR.gstat_ok C D) X ->
  let m1 := IR.m_step inv D t false floor m (IR.e_step inv C D t m X) in
  let m1' := IR.m_step inv D t false floor (aff_ivm a b m) (IR.e_step inv C D t (aff_ivm a b m) (map (aff_gstat a b) X)) in
  IR.iv_T m1' = IR.iv_T (aff_ivm a b m1) /\ IR.iv_sigma m1' = IR.iv_sigma (aff_ivm a b m1) /\ IR.iv_mu m1' = IR.iv_mu (aff_ivm a b m1).
Proof. exact (m_step_affine inv C D t floor a b m X). Qed.
Print Assumptions C15_ivector_training_iteration_equivariant.

(* ISV / JFA: with the UBM transformed like the features and every row j = (c, d) of U, V and entry j of D scaled by a_d, the channel
   factor of a probe, the enrolled ISV offset z and the enrolled JFA factors (y, z) are unchanged after any number of enrolment
   iterations (whatever the external inverse does: it is applied to the same matrices), and the client mean follows the features. *)
Theorem C15_channel_factor_invariant (inv : list (list R) -> list (list R)) (C D rU rV : nat) (a b : list R) (u : FR.ubm) (F : FR.fa) (X : list FR.gstat) :
  scale_ok D a b -> ubm_ok C D u -> fa_ok C D rU rV F -> Forall (FAEnroll.gstat_ok C D) X ->
  FR.estimate_x inv rU D (aff_ubm a b u) (aff_fa C a F) (map (aff_gs a b) X) = FR.estimate_x inv rU D u F X.
Proof. exact (estimate_x_affine inv C D rU rV a b u F X). Qed.
Print Assumptions C15_channel_factor_invariant.

Theorem C15_isv_enrolment_invariant (inv : list (list R) -> list (list R)) (iters C D rU rV : nat) (a b : list R) (u : FR.ubm) (F : FR.fa) (X : list FR.gstat) :
  scale_ok D a b -> ubm_ok C D u -> fa_ok C D rU rV F -> Forall (FAEnroll.gstat_ok C D) X ->
  FR.isv_enroll inv iters rU D (aff_ubm a b u) (aff_fa C a F) (map (aff_gs a b) X) = FR.isv_enroll inv iters rU D u F X.
Proof. exact (isv_enroll_affine inv iters C D rU rV a b u F X). Qed.
Print Assumptions C15_isv_enrolment_invariant.

Theorem C15_jfa_enrolment_invariant (inv : list (list R) -> list (list R)) (iters C D rU rV : nat) (a b : list R) (u : FR.ubm) (F : FR.fa) (X : list FR.gstat) :
  scale_ok D a b -> ubm_ok C D u -> fa_ok C D rU rV F -> Forall (FAEnroll.gstat_ok C D) X ->
  FR.jfa_enroll inv iters rU rV D (aff_ubm a b u) (aff_fa C a F) (map (aff_gs a b) X) = FR.jfa_enroll inv iters rU rV D u F X.
Proof. exact (jfa_enroll_affine inv iters C D rU rV a b u F X). Qed.
Print Assumptions C15_jfa_enrolment_invariant.

Theorem C15_client_mean_follows_the_features (C D rU rV : nat) (a b : list R) (u : FR.ubm) (F : FR.fa) (y : option (list R)) (z : list R) :
  scale_ok D a b -> ubm_ok C D u -> fa_ok C D rU rV F -> length z = (C * D)%nat -> yopt_ok rV y ->
  FR.client_mean (aff_ubm a b u) (aff_fa C a F) y z
  = FR.V.map3 (fun Aj Bj x => Aj * x + Bj) (sup C a) (sup C b) (FR.client_mean u F y z).
Proof. exact (client_mean_affine C D rU rV a b u F y z). Qed.
Print Assumptions C15_client_mean_follows_the_features.

(* Whole ML training runs: started from the transformed model (floors a^2*floor) on the transformed data, every iteration yields
   the transformed model of the original run and reports the original value minus sum ln|a|; with an iteration cap and no
   convergence threshold the trained GMM therefore has means a*mu+b, variances a^2*var and unchanged weights.  Proviso as in the
   property: along the original run every model is a proper mixture and no floor is active (run_ok); means and variances updated. *)
Theorem C15_ml_training_run_equivariant (D : nat) (a b : list R) (eps : R) (uw : bool) (cap : nat) (X : list (list R))
    (mc mc' : MR.machine) (n : nat) (hist : list R) :
  scale_ok D a b -> X <> [] -> GMMStats.rows_ok D X -> 0 < eps ->
  MR.fit cap MR.ML (sw_mv uw) eps None D [X] mc = Some (mc', n, hist) ->
  run_ok D eps uw X n mc ->
  MR.fit cap MR.ML (sw_mv uw) eps None D [map (aff a b) X] (aff_machine a b mc)
  = Some (aff_machine a b mc', n, map (fun l => l - sumlnabs a) hist).
Proof. exact (ml_fit_affine_no_threshold D a b eps uw cap X mc mc' n hist). Qed.
Print Assumptions C15_ml_training_run_equivariant.

(* Known finding D15 (DESIGN.md 9.4): the mean update divides by the floored count; for a numerically starved component the update is
   not shift-equivariant.  Refuted with a witness; for counts at or above the floor C15_ml_training_step_equivariant applies. *)
Theorem C15_starved_component_mean_update_shift_equivariant_refuted :
  exists eps n s b : R, 0 < eps /\ 0 <= n < eps /\ (s + n * b) / Rmax n eps <> s / Rmax n eps + b.
Proof. exact starved_mean_update_shift_equivariant_refuted. Qed.
Print Assumptions C15_starved_component_mean_update_shift_equivariant_refuted.

(* k-means under a rigid motion with uniform scaling  f(x) = s * (Q x) + t,  Q orthogonal (rotations and reflections), s <> 0:
   squared distances are multiplied by s^2, assignments are unchanged, one EM iteration and whole training runs commute with f
   (centroids mapped by f, reported criteria multiplied by s^2, the same number of iterations under the relative-change rule as
   long as no reported criterion is exactly 0, where the rule itself is 0/0). *)
Theorem C15_kmeans_distances_under_rigid_motion (D : nat) (s : R) (Q : list (list R)) (t c x : list R) :
  orthogonal D Q -> length t = D -> length c = D -> length x = D ->
  KR.sqdist (rigid s Q t c) (rigid s Q t x) = s * s * KR.sqdist c x.
Proof. exact (sqdist_rigid D s Q t c x). Qed.
Print Assumptions C15_kmeans_distances_under_rigid_motion.

Theorem C15_kmeans_assignment_under_rigid_motion (D : nat) (s : R) (Q : list (list R)) (t : list R) (cents : list (list R)) (x : list R) :
  s <> 0 -> orthogonal D Q -> length t = D -> length x = D -> KMeansR.rows_ok D cents ->
  KR.closest (map (rigid s Q t) cents) (rigid s Q t x) = KR.closest cents x.
Proof. exact (closest_rigid D s Q t cents x). Qed.
Print Assumptions C15_kmeans_assignment_under_rigid_motion.

Theorem C15_kmeans_iteration_follows_rigid_motion (D : nat) (s : R) (Q : list (list R)) (t : list R) (chunks : list (list (list R))) (cents : list (list R)) :
  s <> 0 -> orthogonal D Q -> length t = D -> Forall (KMeansR.rows_ok D) chunks -> KMeansR.rows_ok D cents ->
  KR.em_iter D (map (map (rigid s Q t)) chunks) (map (rigid s Q t) cents)
  = match KR.em_iter D chunks cents with
    | Some (cents', crit) => Some (map (rigid s Q t) cents', s * s * crit)
    | None => None
    end.
Proof. exact (em_iter_rigid D s Q t chunks cents). Qed.
Print Assumptions C15_kmeans_iteration_follows_rigid_motion.

Theorem C15_kmeans_training_follows_rigid_motion (D cap : nat) (cthr : option R) (s : R) (Q : list (list R)) (t : list R) (chunks : list (list (list R)))
        (cents cents' : list (list R)) (n : nat) (hist : list R) :
  s <> 0 -> orthogonal D Q -> length t = D -> Forall (KMeansR.rows_ok D) chunks -> KMeansR.rows_ok D cents ->
  KR.fit cap cthr D chunks cents = Some (cents', n, hist) -> Forall (fun c => c <> 0) hist ->
  KR.fit cap cthr D (map (map (rigid s Q t)) chunks) (map (rigid s Q t) cents)
  = Some (map (rigid s Q t) cents', n, map (Rmult (s * s)) hist).
Proof. exact (kmeans_fit_rigid D cap cthr s Q t chunks cents cents' n hist). Qed.
Print Assumptions C15_kmeans_training_follows_rigid_motion.

Example C15_a_rotation_is_orthogonal : orthogonal 2 [[0; -1]; [1; 0]].
Proof. exact rot90_orthogonal. Qed.
