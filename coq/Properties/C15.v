(* C15  Training is equivariant, scoring invariant, under affine feature rescaling/shift. *)
From Coq Require Import Reals List.
From BLE Require Import Num.InstR Model.GMM Model.KMeans Model.LinScore Proofs.RLemmas Proofs.GMMLik Proofs.GMMStats Proofs.KMeansR Proofs.LinScoreR Proofs.Affine.
Import ListNotations.
Open Scope R_scope.

Theorem C15_log_likelihood_shifts_by_minus_sum_log_abs_scale (D : nat) (a b : list R) (m : MR.gmm) (x : list R) :
  scale_ok D a b -> length x = D -> wf_gmm D m ->
  length (MR.ws m) = length (MR.mus m) -> length (MR.ws m) = length (MR.vars m) ->
  MR.ll (aff_gmm a b m) (aff a b x) = MR.ll m x - sumlnabs a.
Proof. exact (ll_affine D a b m x). Qed.
Print Assumptions C15_log_likelihood_shifts_by_minus_sum_log_abs_scale.

Theorem C15_responsibilities_invariant (D : nat) (a b : list R) (m : MR.gmm) (x : list R) (c : MR.comp) :
  scale_ok D a b -> length x = D -> wf_gmm D m -> wf_comp D c ->
  length (MR.ws m) = length (MR.mus m) -> length (MR.ws m) = length (MR.vars m) ->
  let '(w, mu, v) := c in
  MR.resp (aff_gmm a b m) (aff a b x) (w, aff a b mu, aff_var a v) = MR.resp m x c.
Proof. exact (resp_affine D a b m x c). Qed.
Print Assumptions C15_responsibilities_invariant.

Theorem C15_statistics_equivariant (D : nat) (a b : list R) (m : MR.gmm) (X : list (list R)) :
  scale_ok D a b -> GMMStats.rows_ok D X -> wf_gmm D m ->
  length (MR.ws m) = length (MR.mus m) -> length (MR.ws m) = length (MR.vars m) ->
  let st := MR.e_step D m X in
  let st' := MR.e_step D (aff_gmm a b m) (map (aff a b) X) in
  MR.s_t st' = MR.s_t st /\ MR.s_n st' = MR.s_n st
  /\ MR.s_px st' = MR.V.map2 (fun sx n => MR.V.map3 (fun ad bd s => ad * s + bd * n) a b sx) (MR.s_px st) (MR.s_n st)
  /\ MR.s_pxx st' = MR.V.map3 (fun sxx sx n => MR.V.map3 (fun ab s2 s1 => fst ab * fst ab * s2 + 2 * fst ab * snd ab * s1 + snd ab * snd ab * n)
                                                (combine a b) sxx sx) (MR.s_pxx st) (MR.s_px st) (MR.s_n st)
  /\ MR.s_ll st' = MR.s_ll st - INR (length X) * sumlnabs a.
Proof. exact (e_step_affine D a b m X). Qed.
Print Assumptions C15_statistics_equivariant.

(* one ML EM step on rescaled data from the rescaled model = the rescaled result: means a*mu+b, variances a^2 var, weights unchanged *)
Theorem C15_ml_training_step_equivariant (D : nat) (a b : list R) (eps : R) (m : MR.gmm) (X : list (list R)) (th : list (list R)) (uw : bool) :
  scale_ok D a b -> X <> [] -> GMMStats.rows_ok D X -> wf_gmm D m -> 0 < eps ->
  length (MR.ws m) = length (MR.mus m) -> length (MR.ws m) = length (MR.vars m) ->
  length th = length (MR.ws m) -> Forall (fun r => length r = D) th ->
  let sw := {| MR.upd_means := true; MR.upd_vars := true; MR.upd_ws := uw |} in
  let st := MR.e_step D m X in
  let st' := MR.e_step D (aff_gmm a b m) (map (aff a b) X) in
  let mc := {| MR.g := m; MR.thr := th |} in
  let mc' := {| MR.g := aff_gmm a b m; MR.thr := map (aff_var a) th |} in
  floors_inactive_plain eps st mc ->
  MR.g (MR.ml_m_step sw eps st' mc') = aff_gmm a b (MR.g (MR.ml_m_step sw eps st mc)).
Proof. exact (ml_m_step_affine D a b eps m X th uw). Qed.
Print Assumptions C15_ml_training_step_equivariant.

Theorem C15_linear_scores_invariant (eps : R) (norm : bool) (C D : nat) (a b : list R) (model umu uvar off : list (list R)) (s : LR.tstat) :
  scale_ok D a b -> shape_ok C D model -> shape_ok C D umu -> shape_ok C D uvar -> shape_ok C D off -> tstat_ok C D s ->
  LR.score1 eps norm (aff_m a b model) (aff_m a b umu) (map (aff_var a) uvar) (scale_m a off) (aff_tstat a b s)
  = LR.score1 eps norm model umu uvar off s.
Proof. exact (score_affine_invariant eps norm C D a b model umu uvar off s). Qed.
Print Assumptions C15_linear_scores_invariant.

(* k-means under translation and uniform scaling: distances scale by s^2, assignments are unchanged *)
Theorem C15_kmeans_similarity (D : nat) (s : R) (t : list R) (cents : list (list R)) (c x : list R) :
  s <> 0 -> length t = D -> length x = D -> length c = D -> KMeansR.rows_ok D cents ->
  KR.sqdist (sim s t c) (sim s t x) = s * s * KR.sqdist c x
  /\ KR.closest (map (sim s t) cents) (sim s t x) = KR.closest cents x.
Proof.
  intros Hs Ht Hx Hc Hr. split.
  - apply (sqdist_similarity s t c x); congruence.
  - exact (closest_similarity D s t cents x Hs Ht Hx Hr).
Qed.
Print Assumptions C15_kmeans_similarity.
