(* C16  A trained model is a function of the labelled sample multiset and the seed only. *)
From Coq Require Import Reals List Permutation.
From BLE Require Import Num.InstR Model.GMM Model.KMeans Model.Linear Proofs.RLemmas Proofs.GMMLik Proofs.GMMStats Proofs.KMeansR Proofs.LinearR Model.FA Proofs.FAEnroll Proofs.FAAcc Proofs.FAOrder Proofs.Perm Generated.Facts Proofs.FactsDefs Proofs.Rng.
Import ListNotations.
Open Scope R_scope.

(* the global generator state and the history of earlier fits/draws do not matter *)
Theorem C16_seeded_subspace_initialisation_ignores_global_state (rng seed vals : Type) (reseed : seed -> rng) (normal : rng -> nat -> vals * rng)
        (s : seed) (nU nV : nat) (g g' : rng) :
  fst (create_UV rng seed vals reseed normal s nU nV g) = fst (create_UV rng seed vals reseed normal s nU nV g').
Proof. exact (create_UV_ignores_global_state rng seed vals reseed normal s nU nV g g'). Qed.
Print Assumptions C16_seeded_subspace_initialisation_ignores_global_state.

Theorem C16_fit_independent_of_history (rng seed vals : Type) (reseed : seed -> rng) (normal : rng -> nat -> vals * rng) (model : Type)
        (train : vals * vals -> model) (s : seed) (nU nV : nat) (g : rng) (h h' : list (event seed)) :
  fst (fit_fa rng seed vals reseed normal model train s nU nV (fold_left (play rng seed vals reseed normal model train) h g))
  = fst (fit_fa rng seed vals reseed normal model train s nU nV (fold_left (play rng seed vals reseed normal model train) h' g)).
Proof. exact (fit_independent_of_history rng seed vals reseed normal model train s nU nV g h h'). Qed.
Print Assumptions C16_fit_independent_of_history.

(* sample order: the GMM statistics (hence every M-step) depend on the multiset of rows only *)
Theorem C16_gmm_statistics_invariant_under_row_permutation (nf : nat) (m : MR.gmm) (X X' : list (list R)) :
  Permutation X X' -> MR.e_step nf m X = MR.e_step nf m X'.
Proof. exact (e_step_perm nf m X X'). Qed.
Print Assumptions C16_gmm_statistics_invariant_under_row_permutation.

(* ... and so do whole training runs: same model, same reported values, same number of iterations *)
Theorem C16_gmm_training_invariant_under_row_permutation cap tr sw eps cthr nf (X X' : list (list R)) mc :
  Permutation X X' -> MR.fit cap tr sw eps cthr nf [X] mc = MR.fit cap tr sw eps cthr nf [X'] mc.
Proof. exact (gmm_fit_perm cap tr sw eps cthr nf X X' mc). Qed.
Print Assumptions C16_gmm_training_invariant_under_row_permutation.

Theorem C16_kmeans_training_invariant_under_row_permutation cap cthr nf cents (X X' : list (list R)) :
  Permutation X X' -> KR.fit cap cthr nf [X] cents = KR.fit cap cthr nf [X'] cents.
Proof. exact (kmeans_fit_perm cap cthr nf cents X X'). Qed.
Print Assumptions C16_kmeans_training_invariant_under_row_permutation.

(* WCCN: class enumeration order, sample order inside classes and label values do not matter *)
Theorem C16_wccn_invariant_under_class_and_sample_permutation (inv chol : list (list R) -> list (list R)) (D : nat) (cl cl' cl'' : list (list (list R))) :
  Forall (LinearR.rows_ok D) cl -> Permutation cl cl' -> Forall2 (@Permutation (list R)) cl' cl'' ->
  NR.wccn_fit inv chol D cl = NR.wccn_fit inv chol D cl''.
Proof. exact (wccn_partition_only inv chol D cl cl' cl''). Qed.
Print Assumptions C16_wccn_invariant_under_class_and_sample_permutation.

Theorem C16_label_renaming_gives_the_same_groups {A} (f : nat -> nat) (order y : list nat) (X : list A) :
  (forall a b, In a (order ++ y) -> In b (order ++ y) -> f a = f b -> a = b) ->
  NR.group (map f order) (map f y) X = NR.group order y X.
Proof. exact (group_relabel f order y X). Qed.
Print Assumptions C16_label_renaming_gives_the_same_groups.

(* ISV / JFA: renaming the classes by any permutation of the ids leaves a training iteration unchanged *)
Theorem C16_isv_and_jfa_iterations_invariant_under_class_permutation inv (C D rU rV : nat) (u : FR.ubm) (F : FR.fa) (cl cl' : list (list FR.gstat)) :
  ubm_ok C D u -> fa_ok C D rU rV F ->
  (forall A, length (inv A) = rU /\ Forall (fun r => length r = rU) (inv A)) ->
  (forall A, length (inv A) = rV /\ Forall (fun r => length r = rV) (inv A)) ->
  Permutation cl cl' -> classes_ok C D cl ->
  FR.isv_iter inv rU D u cl F = FR.isv_iter inv rU D u cl' F /\ FR.jfa_iter_v inv rU rV D u cl F = FR.jfa_iter_v inv rU rV D u cl' F.
Proof.
  intros Hu HF H1 H2 P Hc. split.
  - exact (isv_iter_class_order inv C D rU rV u F Hu HF H1 H2 cl cl' P Hc).
  - exact (jfa_iter_v_class_order inv C D rU rV u F Hu HF H1 H2 cl cl' P Hc).
Qed.
Print Assumptions C16_isv_and_jfa_iterations_invariant_under_class_permutation.

(* ... and whole training runs: any number of EM iterations; for JFA all three phases, the latent factors handed from one phase
   to the next (no hypothesis on the external inverse is needed: it is applied to the same matrices) *)
Theorem C16_isv_and_jfa_training_runs_invariant_under_class_permutation inv (iters C D rU rV : nat) (u : FR.ubm) (F : FR.fa) (cl cl' : list (list FR.gstat)) :
  ubm_ok C D u -> Permutation cl cl' -> classes_ok C D cl ->
  FR.isv_fit inv iters rU D u cl F = FR.isv_fit inv iters rU D u cl' F
  /\ FR.jfa_fit inv iters rU rV D u cl F = FR.jfa_fit inv iters rU rV D u cl' F.
Proof.
  intros Hu P Hc. split.
  - exact (isv_fit_class_order inv iters C D rU rV u F cl cl' Hu P Hc).
  - exact (jfa_fit_class_order inv iters C D rU rV u F cl cl' Hu P Hc).
Qed.
Print Assumptions C16_isv_and_jfa_training_runs_invariant_under_class_permutation.

Theorem C16_generated_seeding_facts : extraction_error = false /\ seeding_ok = true.
Proof. exact generated_seeding_obligation. Qed.
Print Assumptions C16_generated_seeding_facts.
