(* C17  A GMM's likelihood reflects its current visible parameters, whatever its history. *)
From Coq Require Import Reals List.
From BLE Require Import Num.InstR Model.GMM Model.Machine Proofs.RLemmas Proofs.MachineR.
Import ListNotations OR OR.G.
Open Scope R_scope.

(* every reachable state: any finite sequence of setter calls (scalar / per-feature / matrix floors, raised or lowered),
   EM steps with any switches, deep copies, pickles and save/load round trips, from any freshly built machine *)
Theorem C17_invariant_holds_in_every_reachable_state (w : list R) (mu v : list (list R)) (t : thr_t) (ops : list op) :
  Inv (run (fresh w mu v t) ops).
Proof. exact (inv_reachable w mu v t ops). Qed.
Print Assumptions C17_invariant_holds_in_every_reachable_state.

Theorem C17_invariant_preserved_by_every_operation (m : mach) (o : op) : Inv m -> Inv (step m o).
Proof. exact (inv_step m o). Qed.
Print Assumptions C17_invariant_preserved_by_every_operation.

(* no stale normaliser or log-weight: what the object computes from its caches is what its visible parameters define *)
Theorem C17_likelihood_is_that_of_the_visible_parameters (m : mach) (x : list R) : Inv m ->
  lwls_cached m x = lwls (visible m) x /\ ll_cached m x = ll (visible m) x.
Proof. exact (observe_eq_visible m x). Qed.
Print Assumptions C17_likelihood_is_that_of_the_visible_parameters.

Theorem C17_same_visible_parameters_same_likelihood (m1 m2 : mach) (x : list R) :
  Inv m1 -> Inv m2 -> visible m1 = visible m2 -> ll_cached m1 x = ll_cached m2 x.
Proof. exact (same_visible_same_likelihood m1 m2 x). Qed.
Print Assumptions C17_same_visible_parameters_same_likelihood.

Theorem C17_statistics_are_those_of_the_visible_parameters (nf : nat) (m : mach) (X : list (list R)) : Inv m ->
  length (o_w m) = length (o_mu m) -> length (o_w m) = length (o_var m) ->
  e_step_cached nf m X = e_step nf (visible m) X.
Proof. exact (stats_eq_visible nf m X). Qed.
Print Assumptions C17_statistics_are_those_of_the_visible_parameters.

(* no stale floor: variances are never below the current floors *)
Theorem C17_variances_never_below_current_floors (C D : nat) (m : mach) :
  rect C D (o_var m) -> rect C D (bcast C D (o_thr m)) -> (0 < C)%nat -> floors_hold m ->
  forall c d, (c < C)%nat -> (d < D)%nat -> nth d (nth c (bcast C D (o_thr m)) []) 0 <= nth d (nth c (o_var m) []) 0.
Proof. exact (floors_hold_elementwise C D m). Qed.
Print Assumptions C17_variances_never_below_current_floors.
