(* C18  Saving and loading a GMM or its statistics preserves them exactly. *)
From Coq Require Import List Bool.
From Coq Require Import String.
From BLE Require Import Generated.Facts Proofs.FactsDefs Proofs.H5.
Import ListNotations.
Local Open Scope string_scope.
Local Open Scope list_scope.

(* a setting is restored exactly when it is stored under the key the reader binds it from
   (h5py's str -> bytes undone by decoding); any value type, any key lists *)
Theorem C18_setting_round_trip (num : Type) (written : list (string * string)) (ctor : list (string * (string * string)))
        (decoded : string -> bool) (attrs : string -> hval num) (arg k : string) :
  NoDup (map fst written) ->
  assoc arg ctor = Some ("key", k) -> In (k, arg) written ->
  (is_str num (attrs arg) = true -> decoded arg = true) ->
  (forall s, attrs arg <> HBytes num s) ->
  load_arg num ctor decoded (save num written attrs) arg = Some (attrs arg).
Proof. exact (setting_restored num written ctor decoded attrs arg k). Qed.
Print Assumptions C18_setting_round_trip.

Theorem C18_literal_binding_loses_the_setting (num : Type) (ctor : list (string * (string * string))) (decoded : string -> bool)
        (st : store num) (arg lit : string) :
  assoc arg ctor = Some ("literal", lit) -> load_arg num ctor decoded st arg = None.
Proof. exact (literal_not_restored num ctor decoded st arg lit). Qed.
Print Assumptions C18_literal_binding_loses_the_setting.

(* on the key lists extracted from gmm.py ON THIS RUN: every recorded training setting (trainer kind, iteration limit,
   convergence threshold, update switches, weights, size) is bound to its own written key; every written key is read;
   keys are distinct; the trainer string is decoded; the floors are restored before the variances, each from its own key;
   every statistics field is written, read and assigned from its own key *)
Theorem C18_generated_reader_writer_obligations :
  extraction_error = false /\ gmm_settings_ok = true /\ gmm_keys_all_read = true /\ gmm_keys_nodup = true
  /\ h5_gmm_trainer_decoded = true /\ gmm_floors_before_variances = true /\ gmm_post_from_own_keys = true
  /\ stats_fields_ok = true.
Proof. exact generated_h5_obligations. Qed.
Print Assumptions C18_generated_reader_writer_obligations.
