(* C19  Training and scoring never modify or alias caller-owned data. *)
From Coq Require Import List Bool.
From Coq Require Import String.
From BLE Require Import Generated.Facts Proofs.FactsDefs Proofs.Heap.
Import ListNotations.

(* a program accepted by the taint check leaves every caller-owned location unchanged, and every
   untainted result is freshly allocated (shares no memory with caller data) *)
Theorem C19_checked_program_is_frame_safe (arr : Type) (p : list (instr arr)) (t t' : taint) (s : state arr) :
  check arr t p = Some t' ->
  (forall x, t x = false -> next arr s <= env arr s x < next arr s) ->
  let s' := run arr p s in
  (forall l, l < next arr s -> heap arr s' l = heap arr s l) /\ (forall x, t' x = false -> next arr s <= env arr s' x).
Proof. exact (check_sound arr p t t' s). Qed.
Print Assumptions C19_checked_program_is_frame_safe.

(* all sequences of calls that reuse the same input objects *)
Theorem C19_any_sequence_of_checked_calls (arr : Type) (calls : list (list (instr arr))) (s : state arr) :
  Forall (fun p => check arr all_tainted p <> None) calls ->
  forall l, l < next arr s -> heap arr (fold_left (fun st p => run arr p st) calls s) l = heap arr s l.
Proof. exact (calls_compose arr calls s). Qed.
Print Assumptions C19_any_sequence_of_checked_calls.

Theorem C19_modelled_entry_points_pass_and_inplace_pooling_is_rejected (arr : Type) (f1 : list arr -> arr) (f2 : arr -> list arr -> arr) :
  check arr all_tainted (prog_kmeans_init arr f1) <> None /\ check arr all_tainted (prog_map_init arr f1 f2) <> None
  /\ check arr all_tainted (prog_score_pool arr f1) <> None /\ check arr all_tainted (prog_iv_estep arr f1) <> None
  /\ check arr all_tainted (prog_score_pool_inplace arr f2) = None.
Proof. exact (programs_checked arr f1 f2). Qed.
Print Assumptions C19_modelled_entry_points_pass_and_inplace_pooling_is_rejected.

(* every in-place update site extracted from /repo/src ON THIS RUN targets a provably fresh local, the left operand
   of a container +=, a file handed over for writing, or one of the individually justified sites *)
Theorem C19_generated_inplace_sites_are_safe : extraction_error = false /\ all_sites_ok = true /\ inplace_sites <> [].
Proof. exact generated_inplace_obligation. Qed.
Print Assumptions C19_generated_inplace_sites_are_safe.
