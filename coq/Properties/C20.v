(* C20  K-means assigns to the nearest centroid; cluster-derived GMM initialisation is exact. *)
From Coq Require Import Reals List.
From BLE Require Import Num.InstR Model.KMeans Proofs.RLemmas Proofs.KMeansR.
Import ListNotations KR.
Open Scope R_scope.

Theorem C20_distance_is_squared_euclidean (c x : list R) :
  sqdist c x = rsum (V.map2 (fun a b => (a - b) * (a - b)) c x) /\ 0 <= sqdist c x.
Proof. exact (conj (dist_is_sqeuclid c x) (dist_nonneg c x)). Qed.
Print Assumptions C20_distance_is_squared_euclidean.

Theorem C20_distance_shape (cents X : list (list R)) :
  length (distances cents X) = length cents /\ Forall (fun row => length row = length X) (distances cents X).
Proof. exact (dist_shape cents X). Qed.
Print Assumptions C20_distance_shape.

Theorem C20_label_is_first_nearest (cents : list (list R)) (x : list R) : cents <> [] ->
  let k := closest cents x in
  (k < length cents)%nat
  /\ (forall j, (j < length cents)%nat -> nth k (dists cents x) 0 <= nth j (dists cents x) 0)
  /\ (forall j, (j < k)%nat -> nth k (dists cents x) 0 < nth j (dists cents x) 0).
Proof. exact (predict_is_argmin cents x). Qed.
Print Assumptions C20_label_is_first_nearest.

Theorem C20_predict_batch_split (cents X1 X2 : list (list R)) :
  predict cents (X1 ++ X2) = predict cents X1 ++ predict cents X2.
Proof. exact (predict_batch cents X1 X2). Qed.
Print Assumptions C20_predict_batch_split.

Theorem C20_weights_are_fractions (nf : nat) (cents X : list (list R)) : cents <> [] -> X <> [] ->
  snd (var_weights nf cents [X]) = map (fun k => INR (length (members cents k X)) / INR (length X)) (seq 0 (length cents))
  /\ rsum (snd (var_weights nf cents [X])) = 1.
Proof. exact (weights_are_fractions nf cents X). Qed.
Print Assumptions C20_weights_are_fractions.

Theorem C20_variances_are_biased_variances (nf : nat) (cents X : list (list R)) (k : nat) : rows_ok nf X ->
  (k < length cents)%nat -> members cents k X <> [] ->
  let M := members cents k X in
  nth k (fst (var_weights nf cents [X])) []
  = map (fun d => rsum (map (fun x => (nth d x 0 - nth d (vmean nf M) 0) * (nth d x 0 - nth d (vmean nf M) 0)) M) / INR (length M)) (seq 0 nf)
  /\ Forall (fun v => 0 <= v) (nth k (fst (var_weights nf cents [X])) []).
Proof. exact (variances_biased nf cents X k). Qed.
Print Assumptions C20_variances_are_biased_variances.

Theorem C20_every_chunking (nf : nat) (cents : list (list R)) (chunks : list (list (list R))) :
  Forall (rows_ok nf) chunks -> var_weights nf cents chunks = var_weights nf cents [concat chunks].
Proof. exact (var_weights_chunk_independent nf cents chunks). Qed.
Print Assumptions C20_every_chunking.
