"""Shared check machinery: Coq build, proof obligations, Print Assumptions capture, source hygiene,
known findings, replay files, evidence, verdict."""
import fcntl
import hashlib
import json
import os
import re
import subprocess
import sys
import time

VERIF = os.path.dirname(os.path.dirname(os.path.abspath(__file__)))
COQ = os.path.join(VERIF, "coq")
REPO = os.environ.get("VERIF_REPO", "/repo")
SRC = os.path.join(REPO, "src", "bob", "learn", "em")
EVID = os.path.join(VERIF, "evidence")
REPLAYS = os.path.join(VERIF, "replays")
BUILD_TIMEOUT = int(os.environ.get("VERIF_BUILD_TIMEOUT", "2400"))

STD_AXIOMS = {
    "ClassicalDedekindReals.sig_forall_dec", "ClassicalDedekindReals.sig_not_dec",
    "Classical_Prop.classic", "FunctionalExtensionality.functional_extensionality_dep",
    "functional_extensionality_dep", "sig_forall_dec", "sig_not_dec", "classic",
}


def sh(cmd, cwd=None, timeout=None):
    p = subprocess.run(cmd, shell=True, cwd=cwd, capture_output=True, text=True, timeout=timeout)
    return p.returncode, p.stdout, p.stderr


# ------------------------------------------------------------------ Coq build
def _coqproject_files():
    out = []
    for line in open(os.path.join(COQ, "_CoqProject")):
        line = line.strip()
        if line.endswith(".v"):
            out.append(line)
    return out


def build_coq(log=None):
    """Full .vo build of the development (incremental; serialised by a file lock so that the 20
    checks may run concurrently).  `make -k` so that one broken file does not hide the others."""
    from . import extract_facts
    os.makedirs(os.path.join(COQ, "build"), exist_ok=True)
    lock = open(os.path.join(VERIF, ".build.lock"), "w")
    fcntl.flock(lock, fcntl.LOCK_EX)
    try:
        facts_info = extract_facts.regenerate()
        t0 = time.time()
        mk = os.path.join(COQ, "Makefile")
        if (not os.path.exists(mk)) or os.path.getmtime(mk) < os.path.getmtime(os.path.join(COQ, "_CoqProject")):
            rc, o, e = sh("coq_makefile -f _CoqProject -o Makefile", cwd=COQ, timeout=120)
            if rc != 0:
                return {"ok": False, "log": o + e, "seconds": 0, "facts": facts_info}
        rc, o, e = sh("timeout %d make -k -j16 2>&1" % BUILD_TIMEOUT, cwd=COQ, timeout=BUILD_TIMEOUT + 60)
        return {"ok": rc == 0, "log": (o + e)[-6000:], "seconds": round(time.time() - t0, 1), "facts": facts_info}
    finally:
        fcntl.flock(lock, fcntl.LOCK_UN)
        lock.close()


def facts_diagnostics():
    """Which obligation over the generated facts is false (evaluated from the definitions-only file FactsDefs.v)."""
    if not vo_exists("Proofs/FactsDefs.v"):
        return "Proofs/FactsDefs.vo missing"
    outdir = os.path.join(COQ, "build", "diag_%d" % os.getpid())
    os.makedirs(outdir, exist_ok=True)
    src = os.path.join(outdir, "Diag.v")
    with open(src, "w") as fh:
        fh.write("From Coq Require Import String List.\nFrom BLE Require Import Generated.Facts Proofs.FactsDefs.\nOpen Scope string_scope.\nEval vm_compute in all_generated_obligations.\n")
    rc, o, e = sh("timeout 120 coqc -R . BLE -w -all %s" % src, cwd=COQ, timeout=150)
    import shutil
    shutil.rmtree(outdir, ignore_errors=True)
    return (o if rc == 0 else o + e)[-3000:]


def build_errors(log):
    out = []
    for m in re.finditer(r'File "\./([^"]+)", line (\d+)[^\n]*\n(Error:[^\n]*(?:\n(?!make|COQ|File)[^\n]*){0,6})', log):
        out.append("%s:%s %s" % (m.group(1), m.group(2), " ".join(m.group(3).split())[:300]))
    return out


def vo_exists(rel_v):
    return os.path.exists(os.path.join(COQ, rel_v[:-2] + ".vo"))


_thm_re = re.compile(r"^\s*(?:Theorem|Lemma|Example|Corollary)\s+([A-Za-z0-9_']+)", re.M)


def property_theorems(pid):
    path = os.path.join(COQ, "Properties", pid + ".v")
    if not os.path.exists(path):
        return []
    return _thm_re.findall(open(path).read())


def check_property_file(pid):
    """Re-compile Properties/<pid>.v on its own (statements + `exact lemma` + Print Assumptions) and
    capture the assumptions of every theorem."""
    rel = os.path.join("Properties", pid + ".v")
    names = property_theorems(pid)
    res = {"file": rel, "theorems": names, "compiled": False, "assumptions": {}, "axioms": [], "log": ""}
    if not os.path.exists(os.path.join(COQ, rel)):
        res["log"] = "missing " + rel
        return res
    outdir = os.path.join(COQ, "build", "%s_%d" % (pid, os.getpid()))
    os.makedirs(outdir, exist_ok=True)
    outvo = os.path.join(outdir, pid + ".vo")
    rc, o, e = sh("timeout 900 coqc -R . BLE -w -all -o %s %s" % (outvo, rel), cwd=COQ, timeout=960)
    import shutil
    shutil.rmtree(outdir, ignore_errors=True)
    res["log"] = (o + e)[-3000:]
    if rc != 0:
        return res
    res["compiled"] = True
    # Print Assumptions blocks appear in file order
    blocks = re.split(r"(?=Closed under the global context|Axioms:)", o)
    blocks = [b for b in blocks if b.startswith("Closed under") or b.startswith("Axioms:")]
    axioms = set()
    per = []
    for b in blocks:
        if b.startswith("Closed under"):
            per.append([])
        else:
            names_ = re.findall(r"^([A-Za-z_][A-Za-z0-9_'.]*)\s*:", b, re.M)
            names_ = [n for n in names_ if n != "Axioms"]
            per.append(names_)
            axioms.update(names_)
    res["assumptions_blocks"] = len(blocks)
    res["axioms"] = sorted(axioms)
    nonstd = [a for a in axioms if a not in STD_AXIOMS and a.split(".")[-1] not in STD_AXIOMS]
    res["nonstandard_axioms"] = sorted(nonstd)
    return res


_FORBID = re.compile(r"\b(Admitted|admit|Axiom|Axioms|Conjecture|Parameter|Parameters|Abort)\b|Unset\s+Guard|bypass_check|type-in-type|impredicative-set|Admit\s+Obligations")
_SECVAR = re.compile(r"^\s*(Variable|Variables|Hypothesis|Hypotheses|Context)\b")


def hygiene():
    """No Admitted/admit/Axiom/...; Parameter only inside the module types of Num/Scalar.v;
    Variable/Hypothesis only inside a Section."""
    problems = []
    for root, _, files in os.walk(COQ):
        if os.path.basename(root) in ("cases", "build"):
            continue
        for f in files:
            if not f.endswith(".v"):
                continue
            path = os.path.join(root, f)
            rel = os.path.relpath(path, COQ)
            depth = 0
            in_comment = 0
            for ln, line in enumerate(open(path), 1):
                # strip comments (nested)
                out = []
                i = 0
                while i < len(line):
                    if line.startswith("(*", i):
                        in_comment += 1
                        i += 2
                    elif line.startswith("*)", i) and in_comment:
                        in_comment -= 1
                        i += 2
                    else:
                        if not in_comment:
                            out.append(line[i])
                        i += 1
                code = "".join(out)
                if re.match(r"^\s*Section\b", code):
                    depth += 1
                if re.match(r"^\s*End\b", code) and depth > 0:
                    depth -= 1
                m = _FORBID.search(code)
                if m:
                    if m.group(1) in ("Parameter", "Parameters") and rel == os.path.join("Num", "Scalar.v"):
                        continue
                    problems.append("%s:%d: %s" % (rel, ln, code.strip()[:80]))
                if _SECVAR.match(code) and depth == 0:
                    problems.append("%s:%d: %s outside a Section" % (rel, ln, code.strip()[:60]))
    return problems


# ------------------------------------------------------------------ known findings
def known_findings(pid):
    path = os.path.join(VERIF, "known_findings.json")
    if not os.path.exists(path):
        return []
    data = json.load(open(path))
    return [f for f in data.get("findings", []) if f.get("property") == pid and f.get("status") == "known"]


# ------------------------------------------------------------------ the check object
class Check:
    def __init__(self, pid, tier, seed):
        self.pid, self.tier, self.seed = pid, tier, seed
        self.t0 = time.time()
        self.obligations = []      # dicts {name, ok, detail}
        self.corr = []             # dicts {name, cases, bad, info}
        self.failures = []         # dicts {kind, sig, what, replay(dict)}
        self.samples = []
        self.evaluations = 0
        self.nontrivial_keys = set()
        self.notes = {}
        self.partial = []
        self.axioms = []
        self.build = None
        self.propfile = None
        self.known = known_findings(pid)
        self.known_hits = {}

    # -- proof side
    def prove(self):
        b = build_coq()
        self.build = b
        if not b["ok"]:
            errs = build_errors(b["log"])
            self.notes["coq_build_errors"] = errs
            if any("Proofs/Sched.v" in x or "Proofs/H5.v" in x or "Proofs/Heap.v" in x for x in errs):
                self.notes["generated_obligations"] = facts_diagnostics()
        pf = check_property_file(self.pid)
        self.propfile = pf
        self.axioms = pf.get("axioms", [])
        names = pf["theorems"]
        if not names:
            self.obligations.append({"name": "Properties/%s.v" % self.pid, "ok": False, "detail": "no theorem found"})
        for n in names:
            self.obligations.append({"name": n, "ok": bool(pf["compiled"]), "detail": "" if pf["compiled"] else pf["log"][-800:]})
        if pf.get("nonstandard_axioms"):
            self.obligations.append({"name": "axioms-are-stdlib-only", "ok": False, "detail": ",".join(pf["nonstandard_axioms"])})
        else:
            self.obligations.append({"name": "axioms-are-stdlib-only", "ok": bool(pf["compiled"]), "detail": ""})
        hp = hygiene()
        self.obligations.append({"name": "no-admitted-no-declared-axiom", "ok": not hp, "detail": "; ".join(hp[:5])})
        return pf["compiled"]

    def obligation(self, name, ok, detail=""):
        self.obligations.append({"name": name, "ok": bool(ok), "detail": detail})

    # -- coverage accounting
    def count(self, n=1, key=None):
        self.evaluations += n
        if key is not None:
            self.nontrivial_keys.add(key)

    def sample(self, s):
        if len(self.samples) < 4:
            self.samples.append(s)

    # -- correspondence
    def correspondence(self, name, ncases, bad, info):
        self.corr.append({"name": name, "cases": ncases, "bad": len(bad), "bad_idx": bad[:20], "info": info})
        if info.get("errors"):
            self.obligations.append({"name": "correspondence:" + name, "ok": False, "detail": json.dumps(info["errors"])[:800]})
        else:
            self.obligations.append({"name": "correspondence:" + name, "ok": not bad,
                                     "detail": "" if not bad else "%d of %d cases differ (first: %s)" % (len(bad), ncases, bad[:5])})

    # -- property failures found on the implementation
    def fail(self, what, replay, sig=None):
        """A concrete input/history on which the property fails on the implementation."""
        for k in self.known:
            if sig is not None and sig == k.get("signature"):
                self.known_hits.setdefault(sig, {"n": 0, "text": k.get("text", what)})["n"] += 1
                return
        self.failures.append({"what": what, "sig": sig, "replay": replay})

    # -- verdict
    def finish(self, level="proof", rule="", trusted=None, assumptions=None, extra=None):
        os.makedirs(EVID, exist_ok=True)
        os.makedirs(REPLAYS, exist_ok=True)
        broken = [o for o in self.obligations if not o["ok"]]
        lines = []
        rc = 0
        for sig, h in self.known_hits.items():
            lines.append("KNOWN-FINDING: property=%s %s (%d cases; signature %s)" % (self.pid, h["text"], h["n"], sig))
        if self.failures:
            rc = 1
            f = self.failures[0]
            path = os.path.join(REPLAYS, "%s_%d_%d.json" % (self.pid, self.seed, int(time.time())))
            json.dump({"property": self.pid, "what": f["what"], "replay": f["replay"],
                       "all_failures": [x["what"] for x in self.failures[:20]],
                       "broken_obligations": broken[:10]}, open(path, "w"), indent=1, default=str)
            lines.append("VIOLATION property=%s replay=%s" % (self.pid, path))
        elif broken:
            rc = 1
            path = os.path.join(REPLAYS, "%s_%d_%d_obligation.json" % (self.pid, self.seed, int(time.time())))
            json.dump({"property": self.pid,
                       "what": "proof obligation or correspondence no longer checks; the property's oracle found no failing input",
                       "broken_obligations": broken,
                       "coq_build_errors": self.notes.get("coq_build_errors"),
                       "generated_obligations": self.notes.get("generated_obligations"),
                       "build_log": (self.build or {}).get("log", "")[-3000:]}, open(path, "w"), indent=1, default=str)
            lines.append("VIOLATION property=%s replay=%s no-failing-input-found" % (self.pid, path))
        tb = [
            "Coq 8.16.1 kernel and vm_compute (incl. primitive float/int63 evaluation); no native_compute",
            "axioms (Print Assumptions, all from the standard library): " + (", ".join(self.axioms) if self.axioms else "none (closed under the global context)"),
            "hand-written model coq/Model/*.v tied to /repo/src by the correspondence run (differential, not proved)",
            "harness/*.py (generators, hex-literal printer, coqc output parser), harness/extract_facts.py",
            "Python/NumPy/SciPy/Dask/h5py runtimes; binary64 rounding (theorems are over R)",
        ] + (trusted or [])
        cov = {
            "obligations": len(self.obligations),
            "discharged": len(self.obligations) - len(broken),
            "checker_cmd": "cd /verif/coq && make (full .vo build) && coqc -R . BLE Properties/%s.v (Print Assumptions)" % self.pid,
            "trusted_base": tb,
            "evaluations": self.evaluations,
            "distinct_nontrivial": len(self.nontrivial_keys),
            "rule": rule,
            "samples": self.samples or ["(no sample recorded)"],
            "theorems": (self.propfile or {}).get("theorems", []),
            "partial_theorems": self.partial,
            "obligation_list": [{"name": o["name"], "ok": o["ok"]} for o in self.obligations],
            "broken": broken[:10],
            "correspondence": self.corr,
            "traces_validated_against_impl": sum(c["cases"] for c in self.corr),
            "generated_facts": (self.build or {}).get("facts", {}),
            "build_seconds": (self.build or {}).get("seconds"),
            "known_findings_seen": self.known_hits,
            "notes": self.notes,
        }
        if extra:
            cov.update(extra)
        ev = {
            "property_id": self.pid, "tier": self.tier, "seed": self.seed, "level": level,
            "coverage": cov,
            "assumptions": assumptions or [],
            "wall_s": round(time.time() - self.t0, 2),
            "violations": len(self.failures) + (1 if (broken and not self.failures) else 0),
        }
        with open(os.path.join(EVID, self.pid + ".json"), "w") as fh:
            json.dump(ev, fh, indent=1, default=str)
        for l in lines:
            print(l)
        print("%s %s tier=%s seed=%d: obligations %d/%d, correspondence cases %d, evaluations %d, failures %d, known %d, %.1fs"
              % ("FAIL" if rc else "OK", self.pid, self.tier, self.seed, cov["discharged"], cov["obligations"],
                 cov["traces_validated_against_impl"], self.evaluations, len(self.failures), len(self.known_hits), ev["wall_s"]))
        sys.stdout.flush()
        return rc
