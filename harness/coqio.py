"""Crossing the Python <-> Coq boundary: hex-float literals, generated case files, coqc runs.

Every number is written as a hex-float literal (exact); the comparison between the model
(evaluated by vm_compute on Coq's primitive floats) and the implementation's output happens
inside Coq, and only the indices of failing cases are printed.
"""
import math
import os
import re
import subprocess
import time
from concurrent.futures import ThreadPoolExecutor

VERIF = os.path.dirname(os.path.dirname(os.path.abspath(__file__)))
COQ = os.path.join(VERIF, "coq")
CASES = os.path.join(COQ, "cases")
COQC_TIMEOUT = int(os.environ.get("VERIF_COQC_TIMEOUT", "600"))


def fl(x):
    x = float(x)
    if math.isnan(x):
        return "nan"
    if math.isinf(x):
        return "infinity" if x > 0 else "neg_infinity"
    h = x.hex()
    if h.startswith("-"):
        return "(" + h + ")"
    return h


def vec(v):
    return "[" + "; ".join(fl(x) for x in v) + "]"


def mat(m):
    return "[" + "; ".join(vec(r) for r in m) + "]"


def ten3(t):
    return "[" + "; ".join(mat(m) for m in t) + "]"


def nat(n):
    return "%d%%nat" % int(n)


def natlist(l):
    return "[" + "; ".join(nat(x) for x in l) + "]"


def boolean(b):
    return "true" if b else "false"


def opt(x, f=fl):
    return "None" if x is None else "(Some %s)" % f(x)


def lst(items):
    return "[" + ";\n ".join(items) + "]"


HEADER = """From Coq Require Import List ZArith Bool Floats.PrimFloat.
Import ListNotations.
From BLE Require Import Num.FloatFun Num.InstF {imports}.
Open Scope float_scope.
"""


def _run_coqc(path):
    t0 = time.time()
    try:
        p = subprocess.run(
            ["timeout", str(COQC_TIMEOUT), "coqc", "-R", COQ, "BLE", "-w", "-all", path],
            capture_output=True, text=True, cwd=COQ)
        out, err, rc = p.stdout, p.stderr, p.returncode
    except Exception as e:  # pragma: no cover
        out, err, rc = "", repr(e), 99
    return out, err, rc, time.time() - t0


_res_re = re.compile(r"=\s*(\[[^\]]*\])\s*:\s*list nat", re.S)


def parse_natlist(out):
    m = _res_re.search(out)
    if not m:
        return None
    body = m.group(1).strip()[1:-1].strip()
    if not body:
        return []
    return [int(x.replace("%nat", "").strip()) for x in body.split(";")]


def run_cases(tag, imports, case_type, check_fn, case_terms, shard=300, jobs=None):
    """Write shards `cases/<tag>_<k>.v`, each defining `cases : list <case_type>` and evaluating
    the indices on which `check_fn` is false.  Returns (bad_global_indices, info)."""
    os.makedirs(CASES, exist_ok=True)
    for f in os.listdir(CASES):
        if f.startswith(tag + "_"):
            try:
                os.remove(os.path.join(CASES, f))
            except OSError:
                pass
    shards = []
    for k in range(0, len(case_terms), shard):
        part = case_terms[k:k + shard]
        path = os.path.join(CASES, "%s_%d.v" % (tag, k // shard))
        with open(path, "w") as fh:
            fh.write(HEADER.format(imports=imports))
            fh.write("Definition cases : list %s :=\n %s.\n" % (case_type, lst(part)))
            fh.write("Definition bad := bad_idx %s 0%%nat cases.\n" % check_fn)
            fh.write("Eval vm_compute in bad.\n")
        shards.append((k, path))
    jobs = jobs or min(16, max(1, len(shards)))
    bad, errors, secs = [], [], 0.0
    with ThreadPoolExecutor(max_workers=jobs) as ex:
        results = list(ex.map(lambda kp: _run_coqc(kp[1]), shards))
    for (k, path), (out, err, rc, dt) in zip(shards, results):
        secs += dt
        if rc != 0:
            errors.append({"shard": path, "rc": rc, "stderr": err[-2000:]})
            continue
        idx = parse_natlist(out)
        if idx is None:
            errors.append({"shard": path, "rc": rc, "stderr": "unparsable output: " + out[-500:]})
            continue
        bad.extend(k + i for i in idx)
    for f in os.listdir(CASES):
        if f.startswith(tag + "_") and not f.endswith(".v"):
            try:
                os.remove(os.path.join(CASES, f))
            except OSError:
                pass
    return bad, {"shards": len(shards), "coqc_seconds": round(secs, 2), "errors": errors}


def eval_terms(tag, imports, terms):
    """Evaluate each Coq term with vm_compute and return the raw printed outputs (diagnostics only)."""
    os.makedirs(CASES, exist_ok=True)
    path = os.path.join(CASES, "%s_diag.v" % tag)
    with open(path, "w") as fh:
        fh.write(HEADER.format(imports=imports))
        for t in terms:
            fh.write("Eval vm_compute in (%s).\n" % t)
    out, err, rc, _ = _run_coqc(path)
    return out if rc == 0 else "coqc failed: " + err[-1500:]
