"""A Dask scheduler that runs the task graph in a seeded random (or prescribed) topological order,
optionally passing every task through cloudpickle (worker isolation), and records the executed order.
Installed through Dask's public configuration: `with dask.config.set(scheduler=Sched(...).get)`."""
import random

import cloudpickle
import dask
import dask.local
from dask.callbacks import Callback


class _Synchronous:
    _max_workers = 1

    def submit(self, fn, *args, **kwargs):
        from concurrent.futures import Future
        fut = Future()
        try:
            fut.set_result(fn(*args, **kwargs))
        except BaseException as e:  # noqa
            fut.set_exception(e)
        return fut


class Sched:
    def __init__(self, seed=0, isolate=False, reverse=False, cache=None):
        # cache: None, or a dict shared between several get() calls that plays dask's documented opportunistic result cache
        # (dask.cache.Cache): a task whose KEY is already in the cache is not run again, its stored result is substituted
        self.cache = cache
        self.rng = random.Random(seed)
        self.isolate = isolate
        self.reverse = reverse
        self.orders = []          # one list of keys per dask.compute call
        self.ntasks = 0

    def get(self, dsk, keys, **kwargs):
        order = []
        sched = self

        class Shuffle(Callback):
            def _start_state(self, dsk_, state):
                sched._mix(state["ready"])

            def _pretask(self, key, dsk_, state):
                order.append(str(key)[:60])

            def _posttask(self, key, value, dsk_, state, id_):
                sched._mix(state["ready"])
                if sched.cache is not None:
                    sched.cache[key] = value

        extra = dict(dumps=cloudpickle.dumps, loads=cloudpickle.loads) if self.isolate else {}
        kwargs.pop("num_workers", None)
        if self.cache is not None:
            dsk = dict(dsk.__dask_graph__()) if hasattr(dsk, "__dask_graph__") else dict(dsk)
            for k_ in list(dsk):
                if k_ in self.cache:
                    dsk[k_] = self.cache[k_]
        with Shuffle():
            res = dask.local.get_async(_Synchronous().submit, 1, dsk, keys, **extra)
        self.orders.append(order)
        self.ntasks += len(order)
        return res

    def _mix(self, ready):
        if self.reverse:
            ready.reverse()
        else:
            self.rng.shuffle(ready)


def run_under(seed, isolate, fn, reverse=False, cache=None):
    s = Sched(seed=seed, isolate=isolate, reverse=reverse, cache=cache)
    with dask.config.set(scheduler=s.get):
        out = fn()
    return out, s
