"""Fail-closed extractor of *structural* facts from /repo/src (Python ast) -> coq/Generated/Facts.v.

Only data is emitted (lists of strings / tuples); the obligations over that data are stated and
decided in coq/Proofs/FactsOb.v and used by Properties/C04, C12, C17, C18, C19.  When a shape is not
recognised the corresponding constant is emitted empty / "unknown", which makes the obligation
false (never silently true).  The file is rewritten only when its content changes, so that an
unchanged tree does not trigger a rebuild.
"""
import ast
import hashlib
import json
import os

VERIF = os.path.dirname(os.path.dirname(os.path.abspath(__file__)))
REPO = os.environ.get("VERIF_REPO", "/repo")
SRC = os.path.join(REPO, "src", "bob", "learn", "em")
OUT = os.path.join(VERIF, "coq", "Generated", "Facts.v")


def _parse(name):
    return ast.parse(open(os.path.join(SRC, name)).read())


def _find_func(tree, name, cls=None):
    for node in ast.walk(tree):
        if cls is not None:
            if isinstance(node, ast.ClassDef) and node.name == cls:
                for sub in node.body:
                    if isinstance(sub, (ast.FunctionDef,)) and sub.name == name:
                        return sub
        elif isinstance(node, ast.FunctionDef) and node.name == name:
            return node
    return None


def _top_func(tree, name):
    for node in tree.body:
        if isinstance(node, ast.FunctionDef) and node.name == name:
            return node
    return None


def copyback_attrs(fn):
    """`for attr in [..]: setattr(self, attr, getattr(new_machine, attr))` -> the literal list; also explicit `self.a = new_machine.a`."""
    found = []
    if fn is None:
        return found
    for node in ast.walk(fn):
        if isinstance(node, ast.For) and isinstance(node.iter, (ast.List, ast.Tuple)):
            body_ok = False
            for st in node.body:
                if (isinstance(st, ast.Expr) and isinstance(st.value, ast.Call)
                        and getattr(st.value.func, "id", None) == "setattr"
                        and len(st.value.args) == 3
                        and isinstance(st.value.args[0], ast.Name) and st.value.args[0].id == "self"
                        and isinstance(st.value.args[2], ast.Call)
                        and getattr(st.value.args[2].func, "id", None) == "getattr"):
                    body_ok = True
            if body_ok:
                for e in node.iter.elts:
                    if isinstance(e, ast.Constant) and isinstance(e.value, str):
                        found.append(e.value)
                    else:
                        return []
        # the same copy-back written as explicit assignments `self.a = new_machine.a` (one per attribute, any order)
        if (isinstance(node, ast.Assign) and len(node.targets) == 1 and isinstance(node.targets[0], ast.Attribute)
                and isinstance(node.targets[0].value, ast.Name) and node.targets[0].value.id == "self"
                and isinstance(node.value, ast.Attribute) and isinstance(node.value.value, ast.Name)
                and node.value.value.id not in ("self", "np", "da", "dask") and node.value.attr == node.targets[0].attr):
            found.append(node.targets[0].attr)
    return found


def attr_writes(fn, obj):
    """Attributes of parameter `obj` assigned (plain, augmented or through a subscript) in fn."""
    out = []
    if fn is None:
        return None

    def tgt(t):
        if isinstance(t, ast.Attribute) and isinstance(t.value, ast.Name) and t.value.id == obj:
            out.append(t.attr)
        elif isinstance(t, ast.Subscript):
            tgt(t.value)
        elif isinstance(t, (ast.Tuple, ast.List)):
            for e in t.elts:
                tgt(e)

    for node in ast.walk(fn):
        if isinstance(node, ast.Assign):
            for t in node.targets:
                tgt(t)
        elif isinstance(node, (ast.AugAssign, ast.AnnAssign)):
            tgt(node.target)
        elif isinstance(node, ast.Call) and getattr(node.func, "id", None) == "setattr":
            if node.args and isinstance(node.args[0], ast.Name) and node.args[0].id == obj:
                if isinstance(node.args[1], ast.Constant):
                    out.append(str(node.args[1].value))
                else:
                    out.append("?dynamic")
    return sorted(set(out))


def _subscript_key(node):
    """hdf5["k"] / group["k"] (possibly followed by [()] or [...]) -> (container name, key)."""
    while isinstance(node, ast.Subscript):
        sl = node.slice
        if isinstance(sl, ast.Constant) and isinstance(sl.value, str) and isinstance(node.value, ast.Name):
            return node.value.id, sl.value
        node = node.value
    return None


def h5_written(fn):
    keys = []
    if fn is None:
        return None
    for node in ast.walk(fn):
        if isinstance(node, ast.Assign) and len(node.targets) == 1:
            t = node.targets[0]
            if isinstance(t, ast.Subscript) and isinstance(t.slice, ast.Constant) and isinstance(t.slice.value, str):
                if isinstance(t.value, ast.Name):
                    src = None
                    v = node.value
                    # the attribute of self that is written (possibly wrapped: float(self.x), np.array(self.x))
                    for sub in ast.walk(v):
                        if isinstance(sub, ast.Attribute) and isinstance(sub.value, ast.Name) and sub.value.id == "self":
                            src = sub.attr
                            break
                    keys.append((t.slice.value, src or "?"))
    return keys


def _first_branch(fn):
    """The `if int(version_major) >= 1:` statement of a from_hdf5 reader -> (new-format body, legacy body)."""
    for node in fn.body:
        if isinstance(node, ast.If):
            test = ast.dump(node.test)
            if "version_major" in test:
                return node.body, node.orelse
    return None, None


def h5_reads(stmts):
    keys = []
    for st in stmts:
        for node in ast.walk(st):
            k = _subscript_key(node) if isinstance(node, ast.Subscript) else None
            if k and k[1] not in [x for x in keys]:
                keys.append(k[1])
    return keys


def ctor_bindings(stmts):
    """keyword -> ('key', k) | ('literal', repr) | ('name', id) | ('other', '?') for the `cls(...)` call."""
    for st in stmts:
        for node in ast.walk(st):
            if isinstance(node, ast.Call) and isinstance(node.func, ast.Name) and node.func.id == "cls":
                out = []
                for kw in node.keywords:
                    v = kw.value
                    k = None
                    for sub in ast.walk(v):
                        if isinstance(sub, ast.Subscript):
                            k = _subscript_key(sub)
                            if k:
                                break
                    if k:
                        out.append((kw.arg, "key", k[1]))
                    elif isinstance(v, ast.Constant):
                        out.append((kw.arg, "literal", repr(v.value)))
                    elif isinstance(v, ast.Name):
                        # a local: resolve it through its (unique) assignment from a file key in the same branch
                        keys = []
                        for st2 in stmts:
                            for n2 in ast.walk(st2):
                                if isinstance(n2, ast.Assign) and len(n2.targets) == 1 and isinstance(n2.targets[0], ast.Name) \
                                        and n2.targets[0].id == v.id:
                                    for sub in ast.walk(n2.value):
                                        if isinstance(sub, ast.Subscript):
                                            kk = _subscript_key(sub)
                                            if kk:
                                                keys.append(kk[1])
                                                break
                        if len(set(keys)) == 1:
                            out.append((kw.arg, "key", keys[0]))
                        else:
                            out.append((kw.arg, "name", v.id))
                    else:
                        out.append((kw.arg, "other", "?"))
                return out
    return []


def attr_assign_order(stmts, obj="self"):
    """Order in which `self.<attr> = <read of key>` statements appear after the constructor call."""
    out = []
    for st in stmts:
        if isinstance(st, ast.Assign) and len(st.targets) == 1:
            t = st.targets[0]
            if isinstance(t, ast.Attribute) and isinstance(t.value, ast.Name) and t.value.id == obj:
                k = None
                for sub in ast.walk(st.value):
                    if isinstance(sub, ast.Subscript):
                        k = _subscript_key(sub)
                        if k:
                            break
                out.append((t.attr, k[1] if k else "?"))
    return out


def trainer_decoded(stmts):
    """Is the `trainer` value read from the file decoded to str (h5py returns bytes)?"""
    for st in stmts:
        for node in ast.walk(st):
            if isinstance(node, ast.Call) and isinstance(node.func, ast.Name) and node.func.id == "cls":
                for kw in node.keywords:
                    if kw.arg == "trainer":
                        src = ast.dump(kw.value)
                        if ("decode" in src) or ("asstr" in src) or ("str" in src and "Name(id='str'" in src):
                            return True
    # trainer may be decoded into a local first
    for st in stmts:
        src = ast.dump(st)
        if "trainer" in src and ("decode" in src or "asstr" in src):
            return True
    return False


def coq_str(s):
    return '"' + str(s).replace('"', "'") + '"'


def coq_strlist(l):
    return "[" + "; ".join(coq_str(x) for x in l) + "]"


def extract():
    facts = {}
    try:
        gmm = _parse("gmm.py")
        iv = _parse("ivector.py")
        facts["gmm_copyback"] = copyback_attrs(_find_func(gmm, "fit", "GMMMachine"))
        facts["ivector_copyback"] = copyback_attrs(_find_func(iv, "fit", "IVectorMachine"))
        facts["ml_mstep_writes"] = attr_writes(_top_func(gmm, "ml_gmm_m_step"), "machine") or ["?missing"]
        facts["map_mstep_writes"] = attr_writes(_top_func(gmm, "map_gmm_m_step"), "machine") or ["?missing"]
        facts["ivector_mstep_writes"] = attr_writes(_top_func(iv, "m_step"), "machine") or ["?missing"]
        # HDF5: machine
        save = _find_func(gmm, "save", "GMMMachine")
        rd = _find_func(gmm, "from_hdf5", "GMMMachine")
        new, legacy = _first_branch(rd)
        facts["h5_gmm_written"] = h5_written(save) or []
        facts["h5_gmm_read"] = h5_reads(new or [])
        facts["h5_gmm_ctor"] = ctor_bindings(new or [])
        facts["h5_gmm_post"] = attr_assign_order(new or [])
        facts["h5_gmm_trainer_decoded"] = trainer_decoded(new or [])
        # HDF5: statistics
        ssave = _find_func(gmm, "save", "GMMStats")
        srd = _find_func(gmm, "from_hdf5", "GMMStats")
        snew, slegacy = _first_branch(srd)
        facts["h5_stats_written"] = h5_written(ssave) or []
        facts["h5_stats_read"] = h5_reads(snew or [])
        facts["h5_stats_post"] = attr_assign_order(snew or [])
        facts["h5_stats_ctor"] = ctor_bindings(snew or [])
    except Exception as e:  # fail closed
        facts = {"error": repr(e)}
    return facts


def render(facts):
    g = lambda k: facts.get(k, [])
    L = []
    L.append("(* GENERATED by harness/extract_facts.py from /repo/src - do not edit. *)")
    L.append("From Coq Require Import String List Bool.")
    L.append("Import ListNotations.")
    L.append("Open Scope string_scope.")
    for k in ["gmm_copyback", "ivector_copyback", "ml_mstep_writes", "map_mstep_writes", "ivector_mstep_writes",
              "h5_gmm_read", "h5_stats_read"]:
        L.append("Definition %s : list string := %s." % (k, coq_strlist(g(k))))
    for k in ["h5_gmm_written", "h5_stats_written", "h5_gmm_post", "h5_stats_post"]:
        L.append("Definition %s : list (string * string) := [%s]." % (
            k, "; ".join("(%s, %s)" % (coq_str(a), coq_str(b)) for a, b in g(k))))
    for k in ["h5_gmm_ctor", "h5_stats_ctor"]:
        L.append("Definition %s : list (string * (string * string)) := [%s]." % (
            k, "; ".join("(%s, (%s, %s))" % (coq_str(a), coq_str(b), coq_str(c)) for a, b, c in g(k))))
    L.append("Definition h5_gmm_trainer_decoded : bool := %s." % ("true" if facts.get("h5_gmm_trainer_decoded") else "false"))
    L.append("Definition extraction_error : bool := %s." % ("true" if "error" in facts else "false"))
    return "\n".join(L) + "\n"


def regenerate():
    facts = extract()
    text = render(facts)
    os.makedirs(os.path.dirname(OUT), exist_ok=True)
    old = open(OUT).read() if os.path.exists(OUT) else None
    if old != text:
        with open(OUT, "w") as fh:
            fh.write(text)
    facts["_sha"] = hashlib.sha256(text.encode()).hexdigest()[:16]
    facts["_changed"] = old != text
    return facts




# ====================================================================== in-place sites (C19)
ALLOC_CALLS = {
    "np.zeros", "np.zeros_like", "np.ones", "np.ones_like", "np.full", "np.array", "np.eye", "np.empty", "np.vstack", "np.concatenate",
    "np.repeat", "np.sqrt", "np.where", "np.sum", "np.clip", "np.log", "np.exp", "np.power", "np.multiply", "np.maximum", "np.linalg.inv",
    "np.linalg.solve", "np.outer", "np.dot", "np.matmul", "np.einsum", "np.bincount", "np.min", "np.argmin", "np.mean", "np.logaddexp.reduce",
    "copy.deepcopy", "GMMStats", "IVectorStats", "np.random.normal", "da.vstack", "k_init", "list", "dict", "float", "int", "sum",
    "numerical_module.zeros", "numerical_module.array", "numerical_module.mean", "numerical_module.cov", "cholesky", "inv", "pinv",
    "scipy.spatial.distance.cdist", "logaddexp_reduce", "np.full_like",
}
VIEW_CALLS = {"np.asarray", "np.atleast_2d", "np.atleast_1d", "np.swapaxes", "np.transpose", "np.diagonal", "np.reshape", "np.squeeze",
              "np.broadcast_to", "np.expand_dims", "np.ravel"}


def _dotted(node):
    if isinstance(node, ast.Name):
        return node.id
    if isinstance(node, ast.Attribute):
        b = _dotted(node.value)
        return None if b is None else b + "." + node.attr
    return None


def _root(node):
    while isinstance(node, (ast.Subscript, ast.Attribute)):
        node = node.value
    return node.id if isinstance(node, ast.Name) else None


class _FnInfo:
    def __init__(self, fn):
        self.fn = fn
        self.params = [a.arg for a in fn.args.args + fn.args.kwonlyargs] + ([fn.args.vararg.arg] if fn.args.vararg else [])
        self.assigns = {}
        for node in ast.walk(fn):
            if isinstance(node, ast.Assign):
                for t in node.targets:
                    self._bind(t, node.value)
            elif isinstance(node, ast.AnnAssign) and node.value is not None:
                self._bind(node.target, node.value)
            elif isinstance(node, (ast.For, ast.comprehension)):
                self._bind(node.target, ast.Subscript(value=node.iter, slice=ast.Constant(0), ctx=ast.Load()))
            elif isinstance(node, ast.NamedExpr):
                self._bind(node.target, node.value)

    def _bind(self, target, value):
        if isinstance(target, ast.Name):
            self.assigns.setdefault(target.id, []).append(value)
        elif isinstance(target, (ast.Tuple, ast.List)):
            for k, e in enumerate(target.elts):
                self._bind(e, ast.Subscript(value=value, slice=ast.Constant(k), ctx=ast.Load()))

    def expr_prov(self, e, depth=0):
        """'fresh' | 'param' | 'self' | 'unknown'"""
        if depth > 6:
            return "unknown"
        if isinstance(e, (ast.BinOp, ast.UnaryOp, ast.Compare, ast.BoolOp, ast.Constant, ast.List, ast.ListComp, ast.Tuple, ast.Dict,
                          ast.GeneratorExp, ast.JoinedStr)):
            return "fresh"
        if isinstance(e, ast.IfExp):
            a, b = self.expr_prov(e.body, depth + 1), self.expr_prov(e.orelse, depth + 1)
            return a if a == b else ("param" if "param" in (a, b) else "unknown")
        if isinstance(e, ast.Call):
            name = _dotted(e.func)
            if name in ALLOC_CALLS:
                return "fresh"
            if name in VIEW_CALLS and e.args:
                return self.expr_prov(e.args[0], depth + 1)
            if name and name.startswith("self.") and name.split(".")[-1] in FRESH_INTERNAL:
                return "fresh"
            if name in ("self.update_z", "self.update_y"):      # returns its latent_z / latent_y argument
                want = "latent_z" if name.endswith("z") else "latent_y"
                for kw in e.keywords:
                    if kw.arg == want:
                        return self.expr_prov(kw.value, depth + 1)
                return "unknown"
            if isinstance(e.func, ast.Attribute) and e.func.attr in ("copy", "sum", "mean", "flatten", "any", "transpose_copy"):
                return "fresh"
            return "unknown"
        if isinstance(e, ast.Name):
            if e.id == "self":
                return "self"
            if e.id in self.assigns:
                ps = {self.expr_prov(v, depth + 1) for v in self.assigns[e.id]}
                if ps == {"fresh"}:
                    return "fresh"
                if "param" in ps:
                    return "param"
                if ps == {"self"}:
                    return "self"
                return "unknown"
            if e.id in self.params:
                return "param"
            return "unknown"
        if isinstance(e, (ast.Subscript, ast.Attribute)):
            return self.expr_prov(e.value, depth + 1)
        return "unknown"


FRESH_INTERNAL = set()


def _returns_fresh(fn):
    info = _FnInfo(fn)
    rets = [n.value for n in ast.walk(fn) if isinstance(n, ast.Return) and n.value is not None]
    if not rets:
        return False
    for rv in rets:
        vals = rv.elts if isinstance(rv, ast.Tuple) else [rv]
        for v in vals:
            if info.expr_prov(v) != "fresh":
                return False
    return True


def inplace_sites():
    sites = []
    fns = []
    for fname in ["gmm.py", "kmeans.py", "factor_analysis.py", "ivector.py", "linear_scoring.py", "utils.py", "wccn.py", "whitening.py"]:
        tree = _parse(fname)
        for node in ast.walk(tree):
            if isinstance(node, ast.ClassDef):
                for sub in node.body:
                    if isinstance(sub, ast.FunctionDef):
                        fns.append((fname, node.name + "." + sub.name, sub))
            elif isinstance(node, ast.FunctionDef) and node in tree.body:
                fns.append((fname, node.name, node))
    # internal helpers that provably return fresh arrays (two rounds so that helpers may use helpers)
    for _ in range(2):
        for fname, qual, fn in fns:
            if _returns_fresh(fn):
                FRESH_INTERNAL.add(qual.split(".")[-1])
    for fname, qual, fn in fns:
        info = _FnInfo(fn)
        for node in ast.walk(fn):
            tgt = None
            if isinstance(node, ast.Call) and _dotted(node.func) == "functools.reduce" and node.args \
                    and _dotted(node.args[0]) == "operator.iadd" and len(node.args) >= 2:
                # reduce(iadd, xs) updates xs[0] in place
                sites.append((fname[:-3] + ":" + qual, "reduce(iadd, %s)" % ast.unparse(node.args[1]), info.expr_prov(node.args[1])))
                continue
            if isinstance(node, ast.AugAssign):
                tgt = node.target
            elif isinstance(node, ast.Assign):
                for t in node.targets:
                    if isinstance(t, ast.Subscript):
                        tgt = t
            if tgt is None:
                continue
            root = _root(tgt)
            text = ast.unparse(tgt)
            if root is None:
                prov = "unknown"
            elif root == "self":
                prov = "self"
            else:
                base = tgt
                while isinstance(base, ast.Subscript):
                    base = base.value
                prov = info.expr_prov(base)
            sites.append((fname[:-3] + ":" + qual, text, prov))
    return sorted(set(sites))


_old_extract = extract


def extract():  # noqa: F811
    facts = _old_extract()
    try:
        facts["inplace_sites"] = inplace_sites()
        facts["fresh_internal"] = sorted(FRESH_INTERNAL)
    except Exception as e:
        facts["error"] = repr(e)
        facts["inplace_sites"] = [("?", "?", "unknown")]
    return facts


_old_render = render


def render(facts):  # noqa: F811
    text = _old_render(facts)
    sites = facts.get("inplace_sites", [("?", "?", "unknown")])
    text += "Definition inplace_sites : list (string * (string * string)) := [%s].\n" % (
        ";\n  ".join("(%s, (%s, %s))" % (coq_str(a), coq_str(b), coq_str(c)) for a, b, c in sites))
    return text


# ====================================================================== seeding facts (C16)
def _calls(fn):
    return [n for n in ast.walk(fn) if isinstance(n, ast.Call)]


def seeding_facts():
    out = {}
    fatree = _parse("factor_analysis.py")
    cu = _find_func(fatree, "create_UVD", "FactorAnalysisBase")
    seeds = [c.lineno for c in _calls(cu) if _dotted(c.func) == "np.random.seed" and c.args and ast.unparse(c.args[0]) == "self.random_state"]
    draws = [c.lineno for c in _calls(cu) if (_dotted(c.func) or "").startswith("np.random.") and _dotted(c.func) != "np.random.seed"]
    out["create_uvd_reseeds_before_drawing"] = bool(seeds and draws and min(seeds) < min(draws))
    km = _parse("kmeans.py")
    ini = _find_func(km, "initialize", "KMeansMachine")
    out["kinit_receives_seed"] = any(_dotted(c.func) == "k_init" and any(k.arg == "random_state" and ast.unparse(k.value) == "self.random_state" for k in c.keywords)
                                     for c in _calls(ini))
    out["kmeans_uses_no_global_rng"] = not any((_dotted(c.func) or "").startswith("np.random.") for n in ast.walk(km) if isinstance(n, ast.FunctionDef) for c in _calls(n))
    gm = _parse("gmm.py")
    ig = _find_func(gm, "initialize_gaussians", "GMMMachine")
    out["gmm_passes_seed_to_kmeans"] = any(_dotted(c.func) == "KMeansMachine" and any(k.arg == "random_state" and ast.unparse(k.value) == "self.random_state" for k in c.keywords)
                                           for c in _calls(ig))
    out["gmm_uses_no_global_rng"] = not any((_dotted(c.func) or "").startswith("np.random.") for n in ast.walk(gm) if isinstance(n, ast.FunctionDef) for c in _calls(n))
    wc = _parse("wccn.py")
    out["wccn_uses_no_rng"] = "random" not in ast.unparse(wc)
    return out


_old_extract2 = extract


def extract():  # noqa: F811
    facts = _old_extract2()
    try:
        facts["seeding"] = seeding_facts()
    except Exception as e:
        facts["error"] = repr(e)
        facts["seeding"] = {}
    return facts


_old_render2 = render


def render(facts):  # noqa: F811
    text = _old_render2(facts)
    sd = facts.get("seeding", {})
    for k in ["create_uvd_reseeds_before_drawing", "kinit_receives_seed", "kmeans_uses_no_global_rng", "gmm_passes_seed_to_kmeans",
              "gmm_uses_no_global_rng", "wccn_uses_no_rng"]:
        text += "Definition %s : bool := %s.\n" % (k, "true" if sd.get(k) else "false")
    return text


if __name__ == "__main__":
    print(json.dumps(regenerate(), indent=1))
