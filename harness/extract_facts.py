"""Fail-closed extractor of *structural* facts from /repo/src (Python ast) -> coq/Generated/Facts.v.

Only data is emitted (lists of strings / tuples); the obligations over that data are stated and
decided in coq/Proofs/FactsOb.v and used by Properties/C04, C12, C17, C18, C19.  When a shape is not
recognised the corresponding constant is emitted empty / "unknown", which makes the obligation
false (never silently true).  The file is rewritten only when its content changes, so that an
unchanged tree does not trigger a rebuild.
"""
import ast
import hashlib
import json
import os

VERIF = os.path.dirname(os.path.dirname(os.path.abspath(__file__)))
REPO = os.environ.get("VERIF_REPO", "/repo")
SRC = os.path.join(REPO, "src", "bob", "learn", "em")
OUT = os.path.join(VERIF, "coq", "Generated", "Facts.v")


def _parse(name):
    return ast.parse(open(os.path.join(SRC, name)).read())


def _find_func(tree, name, cls=None):
    for node in ast.walk(tree):
        if cls is not None:
            if isinstance(node, ast.ClassDef) and node.name == cls:
                for sub in node.body:
                    if isinstance(sub, (ast.FunctionDef,)) and sub.name == name:
                        return sub
        elif isinstance(node, ast.FunctionDef) and node.name == name:
            return node
    return None


def _top_func(tree, name):
    for node in tree.body:
        if isinstance(node, ast.FunctionDef) and node.name == name:
            return node
    return None


def _reachable_private_methods(tree, cls, fn, depth=2):
    """fn plus the private methods (self._name(...)) of the same class that it calls, transitively up to `depth`: a loop body moved into a
    private helper method is still part of the method's behaviour."""
    if fn is None:
        return []
    seen, frontier = [fn], [fn]
    for _ in range(depth):
        nxt = []
        for f in frontier:
            for node in ast.walk(f):
                if (isinstance(node, ast.Call) and isinstance(node.func, ast.Attribute) and isinstance(node.func.value, ast.Name)
                        and node.func.value.id == "self" and node.func.attr.startswith("_") and not node.func.attr.startswith("__")):
                    g = _find_func(tree, node.func.attr, cls)
                    if g is not None and g not in seen:
                        seen.append(g)
                        nxt.append(g)
        frontier = nxt
    return seen


def copyback_attrs_of(tree, name, cls):
    out = []
    for f in _reachable_private_methods(tree, cls, _find_func(tree, name, cls)):
        out += [a for a in copyback_attrs(f) if a not in out]
    return out


def copyback_attrs(fn):
    """`for attr in [..]: setattr(self, attr, getattr(new_machine, attr))` -> the literal list; also explicit `self.a = new_machine.a`."""
    found = []
    if fn is None:
        return found
    for node in ast.walk(fn):
        if isinstance(node, ast.For) and isinstance(node.iter, (ast.List, ast.Tuple)):
            body_ok = False
            for st in node.body:
                if (isinstance(st, ast.Expr) and isinstance(st.value, ast.Call)
                        and getattr(st.value.func, "id", None) == "setattr"
                        and len(st.value.args) == 3
                        and isinstance(st.value.args[0], ast.Name) and st.value.args[0].id == "self"
                        and isinstance(st.value.args[2], ast.Call)
                        and getattr(st.value.args[2].func, "id", None) == "getattr"):
                    body_ok = True
            if body_ok:
                for e in node.iter.elts:
                    if isinstance(e, ast.Constant) and isinstance(e.value, str):
                        found.append(e.value)
                    else:
                        return []
        # the same copy-back written as explicit assignments `self.a = new_machine.a` (one per attribute, any order)
        if (isinstance(node, ast.Assign) and len(node.targets) == 1 and isinstance(node.targets[0], ast.Attribute)
                and isinstance(node.targets[0].value, ast.Name) and node.targets[0].value.id == "self"
                and isinstance(node.value, ast.Attribute) and isinstance(node.value.value, ast.Name)
                and node.value.value.id not in ("self", "np", "da", "dask") and node.value.attr == node.targets[0].attr):
            found.append(node.targets[0].attr)
    return found


def attr_writes(fn, obj):
    """Attributes of parameter `obj` assigned (plain, augmented or through a subscript) in fn."""
    out = []
    if fn is None:
        return None

    def tgt(t):
        if isinstance(t, ast.Attribute) and isinstance(t.value, ast.Name) and t.value.id == obj:
            out.append(t.attr)
        elif isinstance(t, ast.Subscript):
            tgt(t.value)
        elif isinstance(t, (ast.Tuple, ast.List)):
            for e in t.elts:
                tgt(e)

    for node in ast.walk(fn):
        if isinstance(node, ast.Assign):
            for t in node.targets:
                tgt(t)
        elif isinstance(node, (ast.AugAssign, ast.AnnAssign)):
            tgt(node.target)
        elif isinstance(node, ast.Call) and getattr(node.func, "id", None) == "setattr":
            if node.args and isinstance(node.args[0], ast.Name) and node.args[0].id == obj:
                if isinstance(node.args[1], ast.Constant):
                    out.append(str(node.args[1].value))
                else:
                    out.append("?dynamic")
    return sorted(set(out))


def _subscript_key(node):
    """hdf5["k"] / group["k"] (possibly followed by [()] or [...]) -> (container name, key)."""
    while isinstance(node, ast.Subscript):
        sl = node.slice
        if isinstance(sl, ast.Constant) and isinstance(sl.value, str) and isinstance(node.value, ast.Name):
            return node.value.id, sl.value
        node = node.value
    return None


def h5_written(fn):
    keys = []
    if fn is None:
        return None
    last_local = {}     # local name -> expression last assigned to it (source order), to see through `value = self.x ... hdf5["x"] = value`
    for node in ast.walk(fn):
        if isinstance(node, ast.Assign) and len(node.targets) == 1:
            t = node.targets[0]
            if isinstance(t, ast.Name):
                last_local[t.id] = node.value
            if isinstance(t, ast.Subscript) and isinstance(t.slice, ast.Constant) and isinstance(t.slice.value, str):
                if isinstance(t.value, ast.Name):
                    src = None
                    v = node.value
                    if isinstance(v, ast.Name) and v.id in last_local:
                        v = last_local[v.id]
                    # the attribute of self that is written (possibly wrapped: float(self.x), np.array(self.x))
                    for sub in ast.walk(v):
                        if isinstance(sub, ast.Attribute) and isinstance(sub.value, ast.Name) and sub.value.id == "self":
                            src = sub.attr
                            break
                    keys.append((t.slice.value, src or "?"))
    return keys


def _first_branch(fn):
    """The `if int(version_major) >= 1:` statement of a from_hdf5 reader -> (new-format body, legacy body)."""
    for node in fn.body:
        if isinstance(node, ast.If):
            test = ast.dump(node.test)
            if "version_major" in test:
                return node.body, node.orelse
    return None, None


def h5_reads(stmts):
    keys = []
    for st in stmts:
        for node in ast.walk(st):
            k = _subscript_key(node) if isinstance(node, ast.Subscript) else None
            if k and k[1] not in [x for x in keys]:
                keys.append(k[1])
    return keys


def ctor_bindings(stmts):
    """keyword -> ('key', k) | ('literal', repr) | ('name', id) | ('other', '?') for the `cls(...)` call."""
    for st in stmts:
        for node in ast.walk(st):
            if isinstance(node, ast.Call) and isinstance(node.func, ast.Name) and node.func.id == "cls":
                out = []
                for kw in node.keywords:
                    v = kw.value
                    k = None
                    for sub in ast.walk(v):
                        if isinstance(sub, ast.Subscript):
                            k = _subscript_key(sub)
                            if k:
                                break
                    if k:
                        out.append((kw.arg, "key", k[1]))
                    elif isinstance(v, ast.Constant):
                        out.append((kw.arg, "literal", repr(v.value)))
                    elif isinstance(v, ast.Name):
                        # a local: resolve it through its (unique) assignment from a file key in the same branch
                        keys = []
                        for st2 in stmts:
                            for n2 in ast.walk(st2):
                                if isinstance(n2, ast.Assign) and len(n2.targets) == 1 and isinstance(n2.targets[0], ast.Name) \
                                        and n2.targets[0].id == v.id:
                                    for sub in ast.walk(n2.value):
                                        if isinstance(sub, ast.Subscript):
                                            kk = _subscript_key(sub)
                                            if kk:
                                                keys.append(kk[1])
                                                break
                        if len(set(keys)) == 1:
                            out.append((kw.arg, "key", keys[0]))
                        else:
                            out.append((kw.arg, "name", v.id))
                    else:
                        out.append((kw.arg, "other", "?"))
                return out
    return []


def attr_assign_order(stmts, obj="self"):
    """Order in which `self.<attr> = <read of key>` statements appear after the constructor call."""
    out = []
    local = {}          # local name -> expression last assigned to it (to see through `d = hdf5[k]; v = d[...]; self.a = v`)

    def resolved(e, depth=3):
        while depth and isinstance(e, ast.Name) and e.id in local:
            e, depth = local[e.id], depth - 1
        if depth and isinstance(e, ast.Subscript) and isinstance(e.value, ast.Name) and e.value.id in local:
            return resolved(local[e.value.id], depth - 1)
        if depth and isinstance(e, ast.IfExp):
            return resolved(e.body, depth - 1)
        return e
    for st in stmts:
        if isinstance(st, ast.Assign) and len(st.targets) == 1:
            t = st.targets[0]
            if isinstance(t, ast.Name):
                local[t.id] = st.value
            if isinstance(t, ast.Attribute) and isinstance(t.value, ast.Name) and t.value.id == obj:
                k = None
                for sub in ast.walk(resolved(st.value)):
                    if isinstance(sub, ast.Subscript):
                        k = _subscript_key(sub)
                        if k:
                            break
                out.append((t.attr, k[1] if k else "?"))
    return out


def trainer_decoded(stmts):
    """Is the `trainer` value read from the file decoded to str (h5py returns bytes)?"""
    for st in stmts:
        for node in ast.walk(st):
            if isinstance(node, ast.Call) and isinstance(node.func, ast.Name) and node.func.id == "cls":
                for kw in node.keywords:
                    if kw.arg == "trainer":
                        src = ast.dump(kw.value)
                        if ("decode" in src) or ("asstr" in src) or ("str" in src and "Name(id='str'" in src):
                            return True
    # trainer may be decoded into a local first
    for st in stmts:
        src = ast.dump(st)
        if "trainer" in src and ("decode" in src or "asstr" in src):
            return True
    return False


# ------------------------------------------------------------------ normalisation of table-driven code (before the HDF5 facts are read)
def _literal_table(node, consts):
    """A literal tuple/list of string constants or of tuples of string constants (possibly through a module-level name) -> python value."""
    if isinstance(node, ast.Name) and node.id in consts:
        return consts[node.id]
    if isinstance(node, ast.Attribute) and isinstance(node.value, ast.Name) and node.value.id in ("self", "cls") and node.attr in consts:
        return consts[node.attr]         # a class-level table
    if isinstance(node, (ast.Tuple, ast.List)):
        out = []
        for e in node.elts:
            if isinstance(e, ast.Constant) and isinstance(e.value, str):
                out.append(e.value)
            elif isinstance(e, (ast.Tuple, ast.List)) and all(isinstance(x, ast.Constant) for x in e.elts):
                out.append(tuple(x.value for x in e.elts))
            else:
                return None
        return out
    return None


class _Subst(ast.NodeTransformer):
    def __init__(self, env):
        self.env = env

    def visit_Name(self, node):
        if node.id in self.env and isinstance(node.ctx, ast.Load):
            return ast.copy_location(ast.Constant(self.env[node.id]), node)
        return node

    def visit_JoinedStr(self, node):
        self.generic_visit(node)
        parts = []
        for v in node.values:
            if isinstance(v, ast.Constant):
                parts.append(str(v.value))
            elif isinstance(v, ast.FormattedValue) and isinstance(v.value, ast.Constant) and v.format_spec is None and v.conversion == -1:
                parts.append(str(v.value.value))
            else:
                return node
        return ast.copy_location(ast.Constant("".join(parts)), node)


class _Normalise(ast.NodeTransformer):
    """for <names> in <literal table>: body  ->  the body once per entry with the names replaced by the constants;
    setattr(obj, "a", v) -> obj.a = v ;  getattr(obj, "a") -> obj.a ;
    d = dict(k=v, ...) / d["k"] = v / f(**d)  ->  f(k=v, ...)   (straight-line code of one block)."""
    def __init__(self, consts):
        self.consts = consts

    def _unroll_block(self, stmts):
        import copy as _copy
        out = []
        for st in stmts:
            if isinstance(st, ast.For) and not st.orelse:
                table = _literal_table(st.iter, self.consts)
                names = None
                if isinstance(st.target, ast.Name):
                    names = [st.target.id]
                elif isinstance(st.target, ast.Tuple) and all(isinstance(e, ast.Name) for e in st.target.elts):
                    names = [e.id for e in st.target.elts]
                if table is not None and names is not None and all((isinstance(row, str) and len(names) == 1) or (isinstance(row, tuple) and len(row) == len(names)) for row in table):
                    for row in table:
                        env = {names[0]: row} if isinstance(row, str) else dict(zip(names, row))
                        body = [_Subst(env).visit(_copy.deepcopy(b)) for b in st.body]
                        out += self._unroll_block(body)
                    continue
            for fld in ("body", "orelse", "finalbody"):
                if hasattr(st, fld) and isinstance(getattr(st, fld), list):
                    setattr(st, fld, self._unroll_block(getattr(st, fld)))
            out.append(st)
        return self._fold_dict_kwargs([self._attr_calls(x) for x in out])

    def _attr_calls(self, st):
        class T(ast.NodeTransformer):
            def visit_Call(s2, node):
                s2.generic_visit(node)
                if isinstance(node.func, ast.Name) and node.func.id == "getattr" and len(node.args) == 2 and isinstance(node.args[1], ast.Constant) and isinstance(node.args[1].value, str):
                    return ast.copy_location(ast.Attribute(value=node.args[0], attr=node.args[1].value, ctx=ast.Load()), node)
                return node
        st = T().visit(st)
        if (isinstance(st, ast.Expr) and isinstance(st.value, ast.Call) and isinstance(st.value.func, ast.Name) and st.value.func.id == "setattr"
                and len(st.value.args) == 3 and isinstance(st.value.args[1], ast.Constant) and isinstance(st.value.args[1].value, str)):
            tgt = ast.Attribute(value=st.value.args[0], attr=st.value.args[1].value, ctx=ast.Store())
            return ast.copy_location(ast.Assign(targets=[tgt], value=st.value.args[2], lineno=st.lineno), st)
        return st

    def _fold_dict_kwargs(self, stmts):
        dicts = {}
        out = []
        for st in stmts:
            # d = dict(k=v, ...)
            if (isinstance(st, ast.Assign) and len(st.targets) == 1 and isinstance(st.targets[0], ast.Name) and isinstance(st.value, ast.Call)
                    and isinstance(st.value.func, ast.Name) and st.value.func.id == "dict" and not st.value.args and all(k.arg for k in st.value.keywords)):
                dicts[st.targets[0].id] = [(k.arg, k.value) for k in st.value.keywords]
                continue
            # d = {name: expr for name in <literal table>}
            if (isinstance(st, ast.Assign) and len(st.targets) == 1 and isinstance(st.targets[0], ast.Name) and isinstance(st.value, ast.DictComp)
                    and len(st.value.generators) == 1 and not st.value.generators[0].ifs and isinstance(st.value.generators[0].target, ast.Name)
                    and isinstance(st.value.key, ast.Name) and st.value.key.id == st.value.generators[0].target.id):
                table = _literal_table(st.value.generators[0].iter, self.consts)
                if table is not None and all(isinstance(row, str) for row in table):
                    import copy as _copy
                    nm = st.value.generators[0].target.id
                    dicts[st.targets[0].id] = [(row, _Subst({nm: row}).visit(_copy.deepcopy(st.value.value))) for row in table]
                    continue
            # d["k"] = v
            if (isinstance(st, ast.Assign) and len(st.targets) == 1 and isinstance(st.targets[0], ast.Subscript) and isinstance(st.targets[0].value, ast.Name)
                    and st.targets[0].value.id in dicts and isinstance(st.targets[0].slice, ast.Constant) and isinstance(st.targets[0].slice.value, str)):
                dicts[st.targets[0].value.id].append((st.targets[0].slice.value, st.value))
                continue
            # f(**d)
            for node in ast.walk(st):
                if isinstance(node, ast.Call):
                    kws = []
                    for k in node.keywords:
                        if k.arg is None and isinstance(k.value, ast.Name) and k.value.id in dicts:
                            kws += [ast.keyword(arg=a, value=v) for a, v in dicts[k.value.id]]
                        else:
                            kws.append(k)
                    node.keywords = kws
            out.append(st)
        return out

    def visit_FunctionDef(self, node):
        node.body = self._unroll_block(node.body)
        return node


def _normalised(tree):
    consts = {}
    for scope in [tree.body] + [n.body for n in tree.body if isinstance(n, ast.ClassDef)]:
        for st in scope:
            if isinstance(st, ast.Assign) and len(st.targets) == 1 and isinstance(st.targets[0], ast.Name):
                t = _literal_table(st.value, {})
                if t is not None:
                    consts[st.targets[0].id] = t
    import copy as _copy
    tree2 = _copy.deepcopy(tree)
    for node in ast.walk(tree2):
        if isinstance(node, ast.ClassDef):
            node.body = [(_Normalise(consts).visit_FunctionDef(b) if isinstance(b, ast.FunctionDef) else b) for b in node.body]
    ast.fix_missing_locations(tree2)
    return tree2


def coq_str(s):
    return '"' + str(s).replace('"', "'") + '"'


def coq_strlist(l):
    return "[" + "; ".join(coq_str(x) for x in l) + "]"


def extract():
    facts = {}
    try:
        gmm = _parse("gmm.py")
        iv = _parse("ivector.py")
        facts["gmm_copyback"] = copyback_attrs_of(gmm, "fit", "GMMMachine")
        facts["ivector_copyback"] = copyback_attrs_of(iv, "fit", "IVectorMachine")
        facts["ml_mstep_writes"] = attr_writes(_top_func(gmm, "ml_gmm_m_step"), "machine") or ["?missing"]
        facts["map_mstep_writes"] = attr_writes(_top_func(gmm, "map_gmm_m_step"), "machine") or ["?missing"]
        facts["ivector_mstep_writes"] = attr_writes(_top_func(iv, "m_step"), "machine") or ["?missing"]
        # HDF5: machine (table-driven readers/writers are unrolled first)
        gmm_n = _normalised(gmm)
        save = _find_func(gmm_n, "save", "GMMMachine")
        rd = _find_func(gmm_n, "from_hdf5", "GMMMachine")
        new, legacy = _first_branch(rd)
        facts["h5_gmm_written"] = h5_written(save) or []
        facts["h5_gmm_read"] = h5_reads(new or [])
        facts["h5_gmm_ctor"] = ctor_bindings(new or [])
        facts["h5_gmm_post"] = attr_assign_order(new or [])
        facts["h5_gmm_trainer_decoded"] = trainer_decoded(new or [])
        # HDF5: statistics
        ssave = _find_func(gmm_n, "save", "GMMStats")
        srd = _find_func(gmm_n, "from_hdf5", "GMMStats")
        snew, slegacy = _first_branch(srd)
        facts["h5_stats_written"] = h5_written(ssave) or []
        facts["h5_stats_read"] = h5_reads(snew or [])
        facts["h5_stats_post"] = attr_assign_order(snew or [])
        facts["h5_stats_ctor"] = ctor_bindings(snew or [])
    except Exception as e:  # fail closed
        facts = {"error": repr(e)}
    return facts


def render(facts):
    g = lambda k: facts.get(k, [])
    L = []
    L.append("(* GENERATED by harness/extract_facts.py from /repo/src - do not edit. *)")
    L.append("From Coq Require Import String List Bool.")
    L.append("Import ListNotations.")
    L.append("Open Scope string_scope.")
    for k in ["gmm_copyback", "ivector_copyback", "ml_mstep_writes", "map_mstep_writes", "ivector_mstep_writes",
              "h5_gmm_read", "h5_stats_read"]:
        L.append("Definition %s : list string := %s." % (k, coq_strlist(g(k))))
    for k in ["h5_gmm_written", "h5_stats_written", "h5_gmm_post", "h5_stats_post"]:
        L.append("Definition %s : list (string * string) := [%s]." % (
            k, "; ".join("(%s, %s)" % (coq_str(a), coq_str(b)) for a, b in g(k))))
    for k in ["h5_gmm_ctor", "h5_stats_ctor"]:
        L.append("Definition %s : list (string * (string * string)) := [%s]." % (
            k, "; ".join("(%s, (%s, %s))" % (coq_str(a), coq_str(b), coq_str(c)) for a, b, c in g(k))))
    L.append("Definition h5_gmm_trainer_decoded : bool := %s." % ("true" if facts.get("h5_gmm_trainer_decoded") else "false"))
    L.append("Definition extraction_error : bool := %s." % ("true" if "error" in facts else "false"))
    return "\n".join(L) + "\n"


def regenerate():
    facts = extract()
    text = render(facts)
    os.makedirs(os.path.dirname(OUT), exist_ok=True)
    old = open(OUT).read() if os.path.exists(OUT) else None
    if old != text:
        with open(OUT, "w") as fh:
            fh.write(text)
    facts["_sha"] = hashlib.sha256(text.encode()).hexdigest()[:16]
    facts["_changed"] = old != text
    return facts




# ====================================================================== in-place sites (C19)
ALLOC_CALLS = {
    "np.zeros", "np.zeros_like", "np.ones", "np.ones_like", "np.full", "np.array", "np.eye", "np.empty", "np.vstack", "np.concatenate",
    "np.repeat", "np.sqrt", "np.where", "np.sum", "np.clip", "np.log", "np.exp", "np.power", "np.multiply", "np.maximum", "np.linalg.inv",
    "np.linalg.solve", "np.outer", "np.dot", "np.matmul", "np.einsum", "np.bincount", "np.min", "np.argmin", "np.mean", "np.logaddexp.reduce",
    "copy.deepcopy", "GMMStats", "IVectorStats", "np.random.normal", "da.vstack", "k_init", "list", "dict", "float", "int", "sum",
    "numerical_module.zeros", "numerical_module.array", "numerical_module.mean", "numerical_module.cov", "cholesky", "inv", "pinv",
    "scipy.spatial.distance.cdist", "logaddexp_reduce", "np.full_like",
}
VIEW_CALLS = {"np.asarray", "np.atleast_2d", "np.atleast_1d", "np.swapaxes", "np.transpose", "np.diagonal", "np.reshape", "np.squeeze",
              "np.broadcast_to", "np.expand_dims", "np.ravel"}


def _dotted(node):
    if isinstance(node, ast.Name):
        return node.id
    if isinstance(node, ast.Attribute):
        b = _dotted(node.value)
        return None if b is None else b + "." + node.attr
    return None


def _root(node):
    while isinstance(node, (ast.Subscript, ast.Attribute)):
        node = node.value
    return node.id if isinstance(node, ast.Name) else None


class _FnInfo:
    def __init__(self, fn):
        self.fn = fn
        self.params = [a.arg for a in fn.args.args + fn.args.kwonlyargs] + ([fn.args.vararg.arg] if fn.args.vararg else [])
        self.assigns = {}
        for node in ast.walk(fn):
            if isinstance(node, ast.Assign):
                for t in node.targets:
                    self._bind(t, node.value)
            elif isinstance(node, ast.AnnAssign) and node.value is not None:
                self._bind(node.target, node.value)
            elif isinstance(node, (ast.For, ast.comprehension)):
                self._bind(node.target, ast.Subscript(value=node.iter, slice=ast.Constant(0), ctx=ast.Load()))
            elif isinstance(node, ast.NamedExpr):
                self._bind(node.target, node.value)

    def _bind(self, target, value):
        if isinstance(target, ast.Name):
            self.assigns.setdefault(target.id, []).append(value)
        elif isinstance(target, (ast.Tuple, ast.List)):
            for k, e in enumerate(target.elts):
                self._bind(e, ast.Subscript(value=value, slice=ast.Constant(k), ctx=ast.Load()))

    def expr_prov(self, e, depth=0):
        """'fresh' | 'param' | 'self' | 'unknown'"""
        if depth > 6:
            return "unknown"
        if isinstance(e, (ast.BinOp, ast.UnaryOp, ast.Compare, ast.BoolOp, ast.Constant, ast.List, ast.ListComp, ast.Tuple, ast.Dict,
                          ast.GeneratorExp, ast.JoinedStr)):
            return "fresh"
        if isinstance(e, ast.IfExp):
            a, b = self.expr_prov(e.body, depth + 1), self.expr_prov(e.orelse, depth + 1)
            return a if a == b else ("param" if "param" in (a, b) else "unknown")
        if isinstance(e, ast.Call):
            name = _dotted(e.func)
            if name in ALLOC_CALLS:
                return "fresh"
            if name in VIEW_CALLS and e.args:
                return self.expr_prov(e.args[0], depth + 1)
            if name and name.startswith("self.") and name.split(".")[-1] in FRESH_INTERNAL:
                return "fresh"
            if name in ("self.update_z", "self.update_y"):      # returns its latent_z / latent_y argument
                want = "latent_z" if name.endswith("z") else "latent_y"
                for kw in e.keywords:
                    if kw.arg == want:
                        return self.expr_prov(kw.value, depth + 1)
                return "unknown"
            if isinstance(e.func, ast.Attribute) and e.func.attr in ("copy", "sum", "mean", "flatten", "any", "transpose_copy"):
                return "fresh"
            return "unknown"
        if isinstance(e, ast.Name):
            if e.id == "self":
                return "self"
            if e.id in self.assigns:
                ps = {self.expr_prov(v, depth + 1) for v in self.assigns[e.id]}
                if ps == {"fresh"}:
                    return "fresh"
                if "param" in ps:
                    return "param"
                if ps == {"self"}:
                    return "self"
                return "unknown"
            if e.id in self.params:
                return "param"
            return "unknown"
        if isinstance(e, (ast.Subscript, ast.Attribute)):
            return self.expr_prov(e.value, depth + 1)
        return "unknown"


FRESH_INTERNAL = set()


def _returns_fresh(fn):
    info = _FnInfo(fn)
    rets = [n.value for n in ast.walk(fn) if isinstance(n, ast.Return) and n.value is not None]
    if not rets:
        return False
    for rv in rets:
        vals = rv.elts if isinstance(rv, ast.Tuple) else [rv]
        for v in vals:
            if info.expr_prov(v) != "fresh":
                return False
    return True


def inplace_sites():
    sites = []
    fns = []
    for fname in ["gmm.py", "kmeans.py", "factor_analysis.py", "ivector.py", "linear_scoring.py", "utils.py", "wccn.py", "whitening.py"]:
        tree = _parse(fname)
        for node in ast.walk(tree):
            if isinstance(node, ast.ClassDef):
                for sub in node.body:
                    if isinstance(sub, ast.FunctionDef):
                        fns.append((fname, node.name + "." + sub.name, sub))
            elif isinstance(node, ast.FunctionDef) and node in tree.body:
                fns.append((fname, node.name, node))
    # internal helpers that provably return fresh arrays (two rounds so that helpers may use helpers)
    for _ in range(2):
        for fname, qual, fn in fns:
            if _returns_fresh(fn):
                FRESH_INTERNAL.add(qual.split(".")[-1])
    for fname, qual, fn in fns:
        info = _FnInfo(fn)
        for node in ast.walk(fn):
            tgt = None
            if isinstance(node, ast.Call) and _dotted(node.func) == "functools.reduce" and node.args \
                    and _dotted(node.args[0]) == "operator.iadd" and len(node.args) >= 2:
                # reduce(iadd, xs) updates xs[0] in place
                sites.append((fname[:-3] + ":" + qual, "reduce(iadd, %s)" % ast.unparse(node.args[1]), info.expr_prov(node.args[1])))
                continue
            if isinstance(node, ast.AugAssign):
                tgt = node.target
            elif isinstance(node, ast.Assign):
                for t in node.targets:
                    if isinstance(t, ast.Subscript):
                        tgt = t
            if tgt is None:
                continue
            root = _root(tgt)
            text = ast.unparse(tgt)
            if root is None:
                prov = "unknown"
            elif root == "self":
                prov = "self"
            else:
                base = tgt
                while isinstance(base, ast.Subscript):
                    base = base.value
                prov = info.expr_prov(base)
            sites.append((fname[:-3] + ":" + qual, text, prov))
    return sorted(set(sites))


_old_extract = extract


def extract():  # noqa: F811
    facts = _old_extract()
    try:
        facts["inplace_sites"] = inplace_sites()
        facts["fresh_internal"] = sorted(FRESH_INTERNAL)
    except Exception as e:
        facts["error"] = repr(e)
        facts["inplace_sites"] = [("?", "?", "unknown")]
    return facts


_old_render = render


def render(facts):  # noqa: F811
    text = _old_render(facts)
    sites = facts.get("inplace_sites", [("?", "?", "unknown")])
    text += "Definition inplace_sites : list (string * (string * string)) := [%s].\n" % (
        ";\n  ".join("(%s, (%s, %s))" % (coq_str(a), coq_str(b), coq_str(c)) for a, b, c in sites))
    return text


# ====================================================================== seeding facts (C16)
def _calls(fn):
    return [n for n in ast.walk(fn) if isinstance(n, ast.Call)]


def seeding_facts():
    out = {}
    fatree = _parse("factor_analysis.py")
    cu = _find_func(fatree, "create_UVD", "FactorAnalysisBase")
    seeds = [c.lineno for c in _calls(cu) if _dotted(c.func) == "np.random.seed" and c.args and ast.unparse(c.args[0]) == "self.random_state"]
    draws = [c.lineno for c in _calls(cu) if (_dotted(c.func) or "").startswith("np.random.") and _dotted(c.func) != "np.random.seed"]
    out["create_uvd_reseeds_before_drawing"] = bool(seeds and draws and min(seeds) < min(draws))
    km = _parse("kmeans.py")
    ini = _find_func(km, "initialize", "KMeansMachine")
    out["kinit_receives_seed"] = any(_dotted(c.func) == "k_init" and any(k.arg == "random_state" and ast.unparse(k.value) == "self.random_state" for k in c.keywords)
                                     for c in _calls(ini))
    out["kmeans_uses_no_global_rng"] = not any((_dotted(c.func) or "").startswith("np.random.") for n in ast.walk(km) if isinstance(n, ast.FunctionDef) for c in _calls(n))
    gm = _parse("gmm.py")
    ig = _find_func(gm, "initialize_gaussians", "GMMMachine")
    out["gmm_passes_seed_to_kmeans"] = any(_dotted(c.func) == "KMeansMachine" and any(k.arg == "random_state" and ast.unparse(k.value) == "self.random_state" for k in c.keywords)
                                           for c in _calls(ig))
    out["gmm_uses_no_global_rng"] = not any((_dotted(c.func) or "").startswith("np.random.") for n in ast.walk(gm) if isinstance(n, ast.FunctionDef) for c in _calls(n))
    wc = _parse("wccn.py")
    out["wccn_uses_no_rng"] = "random" not in ast.unparse(wc)
    return out


_old_extract2 = extract


def extract():  # noqa: F811
    facts = _old_extract2()
    try:
        facts["seeding"] = seeding_facts()
    except Exception as e:
        facts["error"] = repr(e)
        facts["seeding"] = {}
    return facts


_old_render2 = render


def render(facts):  # noqa: F811
    text = _old_render2(facts)
    sd = facts.get("seeding", {})
    for k in ["create_uvd_reseeds_before_drawing", "kinit_receives_seed", "kmeans_uses_no_global_rng", "gmm_passes_seed_to_kmeans",
              "gmm_uses_no_global_rng", "wccn_uses_no_rng"]:
        text += "Definition %s : bool := %s.\n" % (k, "true" if sd.get(k) else "false")
    return text


if __name__ == "__main__":
    print(json.dumps(regenerate(), indent=1))
