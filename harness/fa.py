"""Shared driver for ISV / JFA cases (C07, C09, C11, C12, C15, C16)."""
import copy

import numpy as np

from . import coqio as cq
from . import gen
from .impl import GMMStats, em, hexlist, make_gmm

IMPORTS = "Lib.LinAlg Model.FA Model.LinScore Model.FAScore Corr.CorrBase Corr.CorrFA"
ISVMachine, JFAMachine = em.ISVMachine, em.JFAMachine


def mkstats(C, D, t, n, px, pxx=None):
    s = GMMStats(C, D)
    s.t, s.n, s.sum_px = t, np.array(n, dtype=float), np.array(px, dtype=float)
    if pxx is not None:
        s.sum_pxx = np.array(pxx, dtype=float)
    return s


def gen_ubm(r, C=None, D=None):
    C = C or r.choice([1, 2, 3])
    D = D or r.choice([1, 2, 3])
    w, mu, var, s = gen.gen_gmm(r, C, D, "unit")
    return make_gmm(w, mu, var), s


def gen_stats(r, ubm, nsess, frac=True, zero=False):
    """Statistics of nsess sessions: UBM statistics of random frames, optionally rescaled to fractional counts.
    The arrays come in various memory layouts (C order, Fortran order, strided views): only the VALUES are the input.
    zero=True: a zero-frame session may sit anywhere in a list of two or more."""
    C, D = ubm.means.shape
    out = []
    zpos = r.randrange(nsess) if (zero and nsess >= 2 and r.random() < 0.5) else None
    for k_ in range(nsess):
        if k_ == zpos:
            out.append(GMMStats(C, D))
            continue
        X = gen.sample_from(r, np.asarray(ubm.weights), np.asarray(ubm.means) + r.uniform(-1, 1), np.asarray(ubm.variances) * 1.5, r.choice([2, 5, 9]))
        s = ubm.acc_stats(X)
        if frac and r.random() < 0.4:
            k = r.uniform(0.2, 1.7)
            s.n, s.sum_px, s.sum_pxx = s.n * k, s.sum_px * k, s.sum_pxx * k
        lay = r.random()
        if lay < 0.3:
            s.sum_px, s.sum_pxx = np.asfortranarray(s.sum_px), np.asfortranarray(s.sum_pxx)
        elif lay < 0.45:
            s.sum_px = np.repeat(np.asarray(s.sum_px), 2, axis=1)[:, ::2]
            s.n = np.repeat(np.asarray(s.n), 2)[::2]
        out.append(s)
    return out


def make_machine(kind, ubm, rU, rV, U=None, V=None, Dv=None, r=None, dscale=1.0, **kw):
    if kind == "isv":
        m = ISVMachine(r_U=rU, ubm=ubm, **kw)
    else:
        m = JFAMachine(r_U=rU, r_V=rV, ubm=ubm, **kw)
    if r is not None:
        g = gen.nprng(r)
        CD = ubm.means.size
        m.U = g.normal(size=(CD, rU)) * 0.7
        if kind == "jfa":
            m.V = g.normal(size=(CD, rV)) * 0.7
        m.D = np.abs(g.normal(size=CD)) * dscale + 0.05 * dscale
        if r.random() < 0.5:
            # "all initial U, V, D": D is a diagonal factor loading, its entries may carry either sign
            m.D = np.asarray(m.D) * g.choice([-1.0, 1.0], size=CD)
    if U is not None:
        m.U = U
    if V is not None:
        m.V = V
    if Dv is not None:
        m.D = Dv
    return m


def ubm_term(ubm):
    return "(mku %s %s)" % (cq.mat(ubm.means), cq.mat(ubm.variances))


def fa_term(m, kind):
    V = "[]" if kind == "isv" else cq.mat(np.asarray(m.V))
    if kind == "isv":
        V = cq.mat([[] for _ in range(np.asarray(m.U).shape[0])])
    return "(mkfa %s %s %s)" % (cq.mat(np.asarray(m.U)), V, cq.vec(np.asarray(m.D)))


def gstats_term(stats):
    return "[" + "; ".join("mkg %s %s" % (cq.vec(s.n), cq.mat(s.sum_px)) for s in stats) + "]"


def dump_stats(stats):
    return [{"n": hexlist(s.n), "sum_px": hexlist(s.sum_px), "t": float(s.t)} for s in stats]


def dump_machine(m, kind):
    d = {"U": hexlist(m.U), "D": hexlist(m.D), "ubm_means": hexlist(m.ubm.means), "ubm_vars": hexlist(m.ubm.variances),
         "shape": list(m.ubm.means.shape), "rU": int(m.r_U)}
    if kind == "jfa":
        d["V"] = hexlist(m.V)
        d["rV"] = int(m.r_V)
    return d


# ---------------------------------------------------------------- independent reference (dense linear algebra)
def joint_logpost(m, kind, stats, y, xs, z):
    """log p(y, x_1..x_H, z | statistics) up to a constant, for mean_h = m + V y + U x_h + D z, standard-normal
    priors, diagonal UBM covariances; only the zeroth and first order statistics enter."""
    D = m.ubm.means.shape[1]
    sig = m.ubm.variances.flatten()
    mu = m.ubm.means.flatten()
    off = np.asarray(m.D) * z
    if kind == "jfa":
        off = off + np.asarray(m.V) @ y
    lp = -0.5 * float(z @ z)
    if kind == "jfa":
        lp += -0.5 * float(y @ y)
    for s, x in zip(stats, xs):
        n = np.repeat(np.asarray(s.n), D)
        f = np.asarray(s.sum_px).flatten()
        o = mu + off + np.asarray(m.U) @ x
        # sum_frames -1/2 (o_t - o)' S^-1 (o_t - o) = const + (f' S^-1 o) - 1/2 n o' S^-1 o
        lp += float(np.sum(f * o / sig) - 0.5 * np.sum(n * o * o / sig)) - 0.5 * float(x @ x)
    return lp


def joint_mode(m, kind, stats):
    """The unique maximiser of joint_logpost by one dense solve."""
    D = m.ubm.means.shape[1]
    CD = m.ubm.means.size
    sig = m.ubm.variances.flatten()
    mu = m.ubm.means.flatten()
    rU = int(m.r_U)
    rV = int(m.r_V) if kind == "jfa" else 0
    H = len(stats)
    dim = rV + H * rU + CD
    # design: offset_h = B_h theta, theta = (y, x_1..x_H, z)
    A = np.eye(dim)
    b = np.zeros(dim)
    for h, s in enumerate(stats):
        B = np.zeros((CD, dim))
        if rV:
            B[:, :rV] = np.asarray(m.V)
        B[:, rV + h * rU: rV + (h + 1) * rU] = np.asarray(m.U)
        B[:, rV + H * rU:] = np.diag(np.asarray(m.D))
        n = np.repeat(np.asarray(s.n), D)
        f = np.asarray(s.sum_px).flatten()
        A += B.T @ (B * (n / sig)[:, None])
        b += B.T @ ((f - n * mu) / sig)
    th = np.linalg.solve(A, b)
    y = th[:rV]
    xs = [th[rV + h * rU: rV + (h + 1) * rU] for h in range(H)]
    z = th[rV + H * rU:]
    return y, xs, z
