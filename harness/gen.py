"""Seeded structured generators.  Every random choice derives from one `random.Random` built from
(VERIF_SEED, tag), so a disagreement replays exactly."""
import itertools
import math
import random

import numpy as np


def rng(seed, tag):
    return random.Random("%d/%s" % (seed, tag))


def nprng(r):
    return np.random.default_rng(r.getrandbits(64))


def simplex(r, c, lo=0.02):
    w = np.array([lo + r.random() for _ in range(c)])
    return w / w.sum()


def gen_gmm(r, C, D, scale="unit", overlap=None):
    """weights (C,), means (C,D), variances (C,D); per-feature scales unit / mixed (1e-3..1e3) / wide (1e-6..1e6)."""
    if scale == "unit":
        s = np.ones(D)
    elif scale == "mixed":
        s = np.array([10.0 ** r.uniform(-3, 3) for _ in range(D)])
    else:
        s = np.array([10.0 ** r.uniform(-6, 6) for _ in range(D)])
    sep = r.choice([0.5, 2.0, 6.0]) if overlap is None else overlap
    g = nprng(r)
    means = g.normal(size=(C, D)) * sep * s + g.normal(size=D) * s * r.choice([0, 1, 100])
    variances = (g.uniform(0.3, 3.0, size=(C, D))) * s ** 2
    w = simplex(r, C)
    return w, means, variances, s


def sample_from(r, w, means, variances, N):
    g = nprng(r)
    C, D = means.shape
    comp = g.choice(C, size=N, p=w / w.sum())
    return means[comp] + g.normal(size=(N, D)) * np.sqrt(variances[comp])


def gen_data(r, w, means, variances, N, mode):
    """mode: 'model' (drawn from the machine), 'shift' (from a shifted machine), 'tail<k>' (k sigma away
    from every mean), 'dup' (duplicated rows)."""
    C, D = means.shape
    g = nprng(r)
    if mode == "model":
        return sample_from(r, w, means, variances, N)
    if mode == "shift":
        return sample_from(r, w, means + np.sqrt(variances) * 1.5, variances * 2.0, N)
    if mode.startswith("tail"):
        k = float(mode[4:])
        sd = np.sqrt(variances.max(axis=0))
        far = means.max(axis=0) + k * sd
        sign = g.choice([-1.0, 1.0], size=(N, D))
        lo = means.min(axis=0) - k * sd
        X = np.where(sign > 0, far, lo) + g.normal(size=(N, D)) * sd
        return X
    if mode == "dup":
        X = sample_from(r, w, means, variances, max(1, N // 2))
        return np.vstack([X, X])[:N]
    raise ValueError(mode)


def compositions(n):
    """All 2^(n-1) compositions of n (ordered tuples of positive integers summing to n)."""
    out = []
    for bits in itertools.product([0, 1], repeat=n - 1):
        parts, cur = [], 1
        for b in bits:
            if b:
                parts.append(cur)
                cur = 1
            else:
                cur += 1
        parts.append(cur)
        out.append(tuple(parts))
    return out


def random_composition(r, n, maxparts=None):
    k = r.randint(1, min(n, maxparts or n))
    cuts = sorted(r.sample(range(1, n), k - 1)) if k > 1 else []
    parts, prev = [], 0
    for c in cuts + [n]:
        parts.append(c - prev)
        prev = c
    return tuple(parts)


def split_rows(X, parts):
    out, i = [], 0
    for p in parts:
        out.append(X[i:i + p])
        i += p
    return out


def layouts(X):
    """The same float64 VALUES in other containers / memory layouts: Fortran order, a strided (non-contiguous) view, a read-only array
    (a caller may hand over memory the package must not write to), nested lists."""
    import numpy as np
    X = np.asarray(X, dtype=float)
    ro = X.copy()
    ro.setflags(write=False)
    out = [("fortran-order", np.asfortranarray(X)), ("strided-view", np.repeat(X, 2, axis=0)[::2]), ("read-only", ro), ("nested-lists", X.tolist())]
    if X.ndim == 2 and X.shape[1] >= 2:
        out.append(("column-strided-view", np.repeat(X, 2, axis=1)[:, ::2]))
    return out
