"""Shared driver for GMM training cases (C03, C04, C05, C13, C15): run GMMMachine.fit on the
implementation, read the iteration count and the reported average log-likelihoods from the package's
own logging records, and print the case as a Coq `fit_case` literal."""
import copy
import re

import numpy as np

from . import coqio as cq
from . import gen
from .impl import GMMMachine, LogCounter, da, gmm_term, hexlist, make_gmm, thr_matrix

IMPORTS = "Model.GMM Corr.CorrBase Corr.CorrGMM"
_ll_re = re.compile(r"^log likelihood = (.*)$")
_cv_re = re.compile(r"^convergence val = (\S+) and threshold")


def build_machine(cfg):
    """cfg: dict(w, mu, var, thr, sw=(um,uv,uw), eps, map=None|dict(relevance, alpha, prior=(w,mu,var,thr)), cap, cthr)."""
    um, uv, uw = cfg["sw"]
    kw = dict(update_means=um, update_variances=uv, update_weights=uw, mean_var_update_threshold=cfg["eps"],
              max_fitting_steps=cfg["cap"], convergence_threshold=cfg["cthr"])
    if cfg.get("map"):
        mp = cfg["map"]
        pw, pmu, pvar, pthr = mp["prior"]
        prior = make_gmm(pw, pmu, pvar, thr=pthr)
        m = GMMMachine(n_gaussians=len(pw), trainer="map", ubm=prior, map_alpha=mp["alpha"],
                       map_relevance_factor=mp["relevance"], **kw)
        # optionally start from parameters other than the prior's
        if cfg.get("w") is not None:
            m.weights = np.array(cfg["w"], dtype=float)
            m.means = np.array(cfg["mu"], dtype=float)
            m.variance_thresholds = cfg["thr"] if cfg["thr"] is not None else m.variance_thresholds
            m.variances = np.array(cfg["var"], dtype=float)
        return m, prior
    m = make_gmm(cfg["w"], cfg["mu"], cfg["var"], thr=cfg["thr"], **kw)
    return m, None


def run_fit(m, X, chunks=None):
    """Returns (steps, reported average log-likelihoods in order, convergence values)."""
    data = X if chunks is None else da.from_array(X, chunks=(tuple(chunks), (X.shape[1],)))
    with LogCounter("bob.learn.em.gmm") as lc:
        m.fit(data)
    lls, cvs = [], []
    for msg in lc.records:
        a = _ll_re.match(msg)
        if a:
            lls.append(float(a.group(1)))
        b = _cv_re.match(msg)
        if b:
            cvs.append(float(b.group(1)))
    return lc.count, lls, cvs


def case_term(cfg, m0, prior, X, chunks, m1, steps, last, rtol, atol):
    um, uv, uw = cfg["sw"]
    blocks = gen.split_rows(X, chunks if chunks is not None else (len(X),))
    if prior is not None:
        mp = cfg["map"]
        mapt = "(Some (%s, %s, %s))" % (cq.opt(mp["relevance"]), cq.fl(mp["alpha"]), gmm_term(prior))
    else:
        mapt = "None"
    return ("{| fc_w := %s; fc_mu := %s; fc_var := %s; fc_thr := %s; fc_sw := (%s, %s, %s); fc_eps := %s; fc_map := %s; "
            "fc_cap := %s; fc_cthr := %s; fc_nf := %s; fc_chunks := %s; fc_rtol := %s; fc_atol := %s; "
            "fc_ow := %s; fc_omu := %s; fc_ovar := %s; fc_steps := %s; fc_last := %s |}") % (
        cq.vec(m0.weights), cq.mat(m0.means), cq.mat(m0.variances), cq.mat(thr_matrix(m0)),
        cq.boolean(um), cq.boolean(uv), cq.boolean(uw), cq.fl(cfg["eps"]), mapt,
        cq.nat(cfg["cap"] if cfg["cap"] is not None else 60), cq.opt(cfg["cthr"]), cq.nat(X.shape[1]), cq.ten3(blocks), cq.fl(rtol), cq.fl(atol),
        cq.vec(m1.weights), cq.mat(m1.means), cq.mat(m1.variances), cq.nat(steps), cq.fl(last))


def snapshot(m):
    return {"weights": hexlist(m.weights), "means": hexlist(m.means), "variances": hexlist(m.variances),
            "shape": list(np.asarray(m.means).shape)}


def make_case(cfg, X, chunks=None, rtol=2.0 ** -20):
    """Run the implementation; returns dict(term, m0, m1, steps, lls, cvs)."""
    m, prior = build_machine(cfg)
    m0 = copy.deepcopy(m)
    steps, lls, cvs = run_fit(m, X, chunks)
    scale = max(1.0, float(np.abs(X).max()))
    atol = 1e-9 * scale * scale
    term = case_term(cfg, m0, prior, X, chunks, m, steps, lls[-1] if lls else 0.0, rtol, atol)
    return {"term": term, "m0": m0, "m1": m, "steps": steps, "lls": lls, "cvs": cvs, "prior": prior,
            "well_conditioned": well_conditioned(m, X) and well_conditioned(m0, X)}


def well_conditioned(m, X):
    """False when some variance has collapsed to the level of the cancellation noise of sum_pxx/n - mean^2
    (a component sitting on one or two points): the trained values are then dominated by binary64 rounding, and
    comparing two differently ordered float evaluations (NumPy vs the model) is meaningless.  Such cases are
    excluded from the CORRESPONDENCE only; the property oracles still run on them."""
    var = np.asarray(m.variances, dtype=float)
    mu = np.asarray(m.means, dtype=float)
    scale2 = float(np.var(X, axis=0).max()) + 1e-300
    return bool(np.all(var > 1e-7 * (mu * mu + scale2)))


def gen_training(r, C=None, D=None, N=None, scale=None, degenerate=False):
    C = C or r.choice([1, 2, 3])
    D = D or r.choice([1, 2, 3])
    scale = scale or r.choice(["unit", "unit", "mixed"])
    w, mu, var, s = gen.gen_gmm(r, C, D, scale)
    N = N or r.choice([6, 9, 14, 25])
    X = gen.sample_from(r, gen.simplex(r, C), mu + np.sqrt(var) * 0.7, var * 1.3, N)
    return w, mu, var, s, X
