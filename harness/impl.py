"""Drivers for the implementation in /repo/src (public API only) and literal printers for its outputs."""
import logging
import os
import sys

REPO = os.environ.get("VERIF_REPO", "/repo")
sys.path.insert(0, os.path.join(REPO, "src"))
os.environ.setdefault("BOB_LEARN_EM_VERIF", "1")

import dask  # noqa: E402
import dask.array as da  # noqa: E402
import numpy as np  # noqa: E402

import bob.learn.em as em  # noqa: E402
from bob.learn.em import GMMMachine, GMMStats, KMeansMachine  # noqa: E402

from . import coqio as cq  # noqa: E402

assert os.path.realpath(em.__file__).startswith(os.path.realpath(REPO)), em.__file__
dask.config.set(scheduler="synchronous")


def make_gmm(w, mu, var, thr=None, **kw):
    m = GMMMachine(n_gaussians=len(w), weights=np.array(w, dtype=float), **kw)
    m.means = np.array(mu, dtype=float)
    if thr is not None:
        m.variance_thresholds = thr
    m.variances = np.array(var, dtype=float)
    return m


def gmm_term(m):
    return "(mkgmm %s %s %s)" % (cq.vec(m.weights), cq.mat(m.means), cq.mat(m.variances))


def stats_term(s):
    return "{| l_t := %s; l_n := %s; l_px := %s; l_pxx := %s; l_ll := %s |}" % (
        cq.nat(int(s.t)), cq.vec(np.asarray(s.n)), cq.mat(np.asarray(s.sum_px)), cq.mat(np.asarray(s.sum_pxx)),
        cq.fl(float(s.log_likelihood)))


def thr_matrix(m):
    """The machine's variance floors broadcast to (C, D)."""
    return np.broadcast_to(np.asarray(m.variance_thresholds, dtype=float), m.means.shape).copy()


def hexlist(a):
    return [float(x).hex() for x in np.asarray(a, dtype=float).ravel()]


class LogCounter(logging.Handler):
    """Counts EM iterations from the package's own logging records (no source hook needed)."""

    def __init__(self, logger_name, prefix="Iteration"):
        super().__init__(level=logging.DEBUG)
        self.prefix = prefix
        self.count = 0
        self.records = []
        self.logger = logging.getLogger(logger_name)

    def emit(self, record):
        msg = record.getMessage()
        self.records.append(msg)
        if msg.startswith(self.prefix):
            self.count += 1

    def __enter__(self):
        self.old = self.logger.level
        self.logger.setLevel(logging.DEBUG)
        self.logger.addHandler(self)
        return self

    def __exit__(self, *a):
        self.logger.removeHandler(self)
        self.logger.setLevel(self.old)
