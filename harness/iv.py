"""Shared driver for i-vector cases (C10, C12, C13, C15)."""
import copy

import numpy as np

from . import coqio as cq
from . import gen
from .impl import GMMStats, em, hexlist, make_gmm

IMPORTS = "Lib.LinAlg Model.IVector Corr.CorrBase Corr.CorrIV"
IVectorMachine = em.IVectorMachine


def t0_of(seed, C, D, t):
    np.random.seed(seed)
    return np.random.normal(loc=0.0, scale=1.0, size=(C, D, t))


def fit_machine(ubm, data, t, iters, update_sigma, floor, seed):
    m = IVectorMachine(ubm=ubm, dim_t=t, max_iterations=iters, update_sigma=update_sigma, variance_floor=floor)
    np.random.seed(seed)
    m.fit(data)
    return m


def with_params(ubm, T, sigma, t, floor=1e-10):
    m = IVectorMachine(ubm=ubm, dim_t=t, variance_floor=floor)
    m.dim_c, m.dim_d = ubm.means.shape
    m.T, m.sigma = np.array(T, dtype=float), np.array(sigma, dtype=float)
    return m


def ivm_term(mu, T, sigma):
    return "(mkiv %s %s %s)" % (cq.mat(mu), cq.ten3(T), cq.mat(sigma))


def gs_term(s):
    return "mkgs %s %s %s" % (cq.vec(s.n), cq.mat(s.sum_px), cq.mat(s.sum_pxx))


def parts_term(parts):
    return "[" + "; ".join("[" + "; ".join(gs_term(s) for s in p) + "]" for p in parts) + "]"


def dump_stats(stats):
    return [{"n": hexlist(s.n), "sum_px": hexlist(s.sum_px), "sum_pxx": hexlist(s.sum_pxx), "t": float(s.t)} for s in stats]


def marginal(mu, T, sigma, stats):
    """log p(statistics | T, sigma), total-variability factor integrated out (up to a constant independent of T, sigma)."""
    C, D, t = T.shape
    tot = 0.0
    for s in stats:
        n = np.asarray(s.n)
        F = np.asarray(s.sum_px) - n[:, None] * mu
        S = np.asarray(s.sum_pxx) - 2 * np.asarray(s.sum_px) * mu + n[:, None] * mu * mu
        P = np.eye(t)
        b = np.zeros(t)
        for c in range(C):
            P += n[c] * (T[c].T / sigma[c]) @ T[c]
            b += (T[c].T / sigma[c]) @ F[c]
        tot += -0.5 * float(np.sum(n[:, None] * np.log(sigma))) - 0.5 * float(np.sum(S / sigma))
        tot += 0.5 * float(b @ np.linalg.solve(P, b)) - 0.5 * float(np.linalg.slogdet(P)[1])
    return tot
