"""Shared driver for k-means cases (C06, C20, C04, C13, C16)."""
import numpy as np

from . import coqio as cq
from . import gen
from .impl import KMeansMachine, LogCounter, da, hexlist

IMPORTS = "Model.KMeans Corr.CorrBase Corr.CorrKMeans"


def as_input(X, chunks):
    return X if chunks is None else da.from_array(X, chunks=(tuple(chunks), (X.shape[1],)))


def run_kfit(init, X, chunks=None, cap=5, cthr=None, **kw):
    km = KMeansMachine(n_clusters=len(init), init_method=np.array(init), max_iter=cap,
                       convergence_threshold=cthr, **kw)
    with LogCounter("bob.learn.em.kmeans") as lc:
        km.fit(as_input(X, chunks))
    crit = []
    for msg in lc.records:
        if msg.startswith("Average minimal squared Euclidean distance = "):
            crit.append(float(msg.split("=")[1]))
    # relative changes recomputed from the reported criterion (independent of the implementation's own test value)
    cvs = [abs((crit[k - 1] - crit[k]) / crit[k - 1]) for k in range(1, len(crit)) if crit[k - 1] not in (0.0,) and np.isfinite(crit[k - 1])]
    return km, lc.count, cvs


def initial_centroids(method, X, k, seed):
    """Initial centroids of a seeded string initialiser, read back from a max_iter=0 fit."""
    km = KMeansMachine(n_clusters=k, init_method=method, max_iter=0, random_state=seed)
    km.fit(X)
    return np.array(km.centroids_, dtype=float)


def distortion(cents, X):
    km = KMeansMachine(n_clusters=len(cents))
    km.centroids_ = np.array(cents, dtype=float)
    return float(np.asarray(km.transform(X)).min(axis=0).mean()), np.asarray(km.predict(X))


def fit_term(init, X, chunks, cap, cthr, km, steps, rtol=2.0 ** -24):
    blocks = gen.split_rows(X, chunks if chunks is not None else (len(X),))
    sc = max(1.0, float(np.abs(X).max()))
    return ("{| kf_c := %s; kf_nf := %s; kf_chunks := %s; kf_cap := %s; kf_cthr := %s; kf_rtol := %s; kf_atol := %s; "
            "kf_oc := %s; kf_steps := %s; kf_crit := %s |}") % (
        cq.mat(init), cq.nat(X.shape[1]), cq.ten3(blocks), cq.nat(cap if cap is not None else 60), cq.opt(cthr),
        cq.fl(rtol), cq.fl(1e-10 * sc * sc), cq.mat(km.centroids_), cq.nat(steps), cq.fl(float(km.average_min_distance)))


def gen_clusters(r, K=None, D=None, N=None, offset=0.0, sep=None):
    K = K or r.choice([1, 2, 3, 4])
    D = D or r.choice([1, 2, 3])
    N = N or r.choice([6, 10, 17, 30])
    g = gen.nprng(r)
    sep = sep or r.choice([1.0, 4.0, 10.0])
    centres = g.normal(size=(K, D)) * sep + offset
    lab = g.integers(0, K, size=N)
    X = centres[lab] + g.normal(size=(N, D))
    init = X[g.choice(N, size=K, replace=False)] + g.normal(size=(K, D)) * 0.1 if N >= K else centres
    return np.array(init, dtype=float), np.array(X, dtype=float)


def margin_ok(cents, X, rel=1e-6):
    """No (near-)tie between the two closest centroids of any sample."""
    d = ((np.asarray(cents)[:, None, :] - np.asarray(X)[None, :, :]) ** 2).sum(-1)
    if d.shape[0] < 2:
        return True
    s = np.sort(d, axis=0)
    return bool(np.all(s[1] - s[0] > rel * (1.0 + s[1])))
