"""C01  GMM log-likelihood = log of the normalised diagonal-Gaussian mixture density."""
import math

import numpy as np

from .. import coqio as cq
from .. import gen
from ..impl import da, make_gmm, gmm_term, hexlist
from bob.learn.em import gmm as gmm_module

IMPORTS = "Model.GMM Corr.CorrBase Corr.CorrGMM"


def ref_ll(w, mu, var, x):
    """log sum_c w_c N(x; mu_c, diag var_c), term by term with fsum and the max-shift."""
    C, D = mu.shape
    lw = []
    for c in range(C):
        q = math.fsum((x[d] - mu[c, d]) ** 2 / var[c, d] for d in range(D))
        lg = math.fsum(math.log(var[c, d]) for d in range(D))
        lw.append(math.log(w[c]) - 0.5 * (D * math.log(2 * math.pi) + lg + q))
    mx = max(lw)
    return mx + math.log(math.fsum(math.exp(a - mx) for a in lw)), lw


def run(chk):
    chk.prove()
    r = gen.rng(chk.seed, "C01")
    n_cases = 120 if chk.tier == "quick" else 1500
    terms, metas = [], []
    modes = ["model", "shift", "tail10", "tail100", "tail1000", "tail3000", "dup"]
    earlier = None          # (machine, samples, scores) of the previous case: machines do not share any derived state
    for i in range(n_cases):
        C = r.choice([1, 2, 3, 4, 6]) if i % 7 else r.choice([1, 8])
        D = r.choice([1, 2, 3, 5])
        scale = r.choice(["unit", "mixed", "wide"])
        mode = modes[i % len(modes)]
        highdim = None
        if i % 10 == 9:
            # many features: the product of the variances leaves the binary64 range although every single one is ordinary
            C, D, scale, highdim = r.choice([1, 2]), r.choice([60, 150, 400]), "unit", r.choice([1e-2, 1e2, 3e-1])
        w, mu, var, s = gen.gen_gmm(r, C, D, scale)
        if highdim is not None:
            mu, var, s = mu * highdim, var * highdim ** 2, s * highdim
        thr = r.choice([None, 1e-3 * float(s.min()) ** 2, list(0.5 * s ** 2)])
        tiny = None
        if i % 5 == 3 and C >= 2:
            # a strictly positive but tiny weight (all positive weights are in the quantifier)
            tiny = r.randrange(C)
            w = np.array(w, dtype=float)
            w[tiny] = r.choice([1e-20, 1e-120, 1e-300])
            rest = [k for k in range(C) if k != tiny]
            w[rest] = w[rest] / w[rest].sum() * (1.0 - w[tiny])
        if i % 8 == 6 and tiny is None:
            # positive weights need not sum to one (counts, un-normalised priors): the mixture density is the weighted sum all the same
            w = np.asarray(w, dtype=float) * r.choice([0.5, 8.0, 37.0])
        order = "floors-first" if i % 4 else "floors-raised-after-variances"
        if order == "floors-first":
            m = make_gmm(w, mu, var, thr=thr)
        else:
            # another construction history: variances first, floors raised afterwards (some variances get clamped)
            m = make_gmm(w, mu, var)
            m.variance_thresholds = thr if thr is not None else float(np.median(var))
        N = r.choice([1, 2, 5])
        X = gen.gen_data(r, w, mu, var, N, mode)
        if tiny is not None:
            # samples sitting on the tiny-weight component and far in the tail of every other one
            far = np.asarray(mu).copy()
            X = np.asarray(mu)[tiny][None, :] + 0.01 * np.sqrt(np.asarray(var)[tiny])[None, :] * np.arange(1, N + 1)[:, None]
            m.means = np.where(np.arange(C)[:, None] == tiny, np.asarray(mu), np.asarray(mu) + 50 * np.sqrt(np.asarray(var)).max() * (1 + np.arange(C))[:, None])
            mu = np.asarray(m.means)
        N = len(X)
        lwl = np.asarray(m.log_weighted_likelihood(X))
        ll = np.asarray(m.log_likelihood(X))
        terms.append("{| lc_m := %s; lc_x := %s; lc_lwl := %s; lc_ll := %s |}" % (gmm_term(m), cq.mat(X), cq.mat(lwl), cq.vec(ll)))
        floor_active = bool(np.any(m.variances > np.asarray(var) * (1 + 1e-12)))
        metas.append((C, D, scale, mode, N, floor_active, order, tiny is not None))
        chk.count(1, key=("corr", C, D if D <= 5 else "many", scale, mode, floor_active, order, tiny is not None))
        if i < 2:
            chk.sample({"entry": "log_likelihood", "C": C, "D": D, "scale": scale, "mode": mode,
                        "x": hexlist(X), "ll": hexlist(ll)})
        # ---- oracle on the implementation: the property itself
        V = np.asarray(m.variances)
        for j in range(N):
            want, lws = ref_ll(np.asarray(m.weights), np.asarray(m.means), V, X[j])
            got = float(ll[j])
            tol = 1e-9 * max(1.0, abs(want))
            if not (math.isfinite(got) and abs(got - want) <= tol):
                chk.fail("log_likelihood differs from log sum_c w_c N(x;mu_c,var_c): got %r want %r (mode %s)" % (got, want, mode),
                         {"entry": "GMMMachine.log_likelihood", "weights": hexlist(m.weights), "means": hexlist(m.means),
                          "variances": hexlist(V), "shape": [C, D], "x": hexlist(X[j]), "got": got, "want": want})
            # per-component values log-sum-exp to the reported one
            mx = float(np.max(lwl[:, j]))
            lse = mx + math.log(math.fsum(math.exp(float(a) - mx) for a in lwl[:, j]))
            if not abs(lse - got) <= tol:
                chk.fail("per-component weighted log-likelihoods do not log-sum-exp to log_likelihood",
                         {"entry": "log_weighted_likelihood", "x": hexlist(X[j]), "lse": lse, "ll": got})
            # the per-component entry points given ONE sample as a plain vector: the same C values as its column in the batch
            for nm, fn in (("GMMMachine.log_weighted_likelihood", m.log_weighted_likelihood),
                           ("gmm.log_weighted_likelihood", lambda v: gmm_module.log_weighted_likelihood(v, m))):
                col = np.asarray(fn(X[j]), dtype=float)
                if not (col.size == C and np.allclose(col.ravel(), lwl[:, j], rtol=1e-12, atol=1e-12)):
                    chk.fail("%s of a single sample given as a vector differs from its column in the batch (shape %s)" % (nm, col.shape),
                             {"entry": nm + " 1-D", "x": hexlist(X[j]), "weights": hexlist(m.weights), "means": hexlist(m.means),
                              "variances": hexlist(V), "shape": [C, D]})
            # single sample == same sample inside the batch
            one = float(np.asarray(m.log_likelihood(X[j]))[0])
            if not (one == got or abs(one - got) <= 1e-12 * max(1.0, abs(got))):
                chk.fail("single-sample score differs from in-batch score",
                         {"entry": "log_likelihood single vs batch", "x": hexlist(X[j]), "single": one, "batch": got})
        # the likelihood follows the CURRENT parameters: after the machine has been used, re-assign weights (then means) and score again
        if i % 4 == 2 and tiny is None:
            w2 = gen.simplex(r, C)
            m.weights = w2
            got2 = np.asarray(m.log_likelihood(X))
            lw2 = np.asarray(m.log_weighted_likelihood(X))
            for j in range(N):
                want2, lws2 = ref_ll(np.asarray(w2), np.asarray(m.means), V, X[j])
                if not (abs(float(got2[j]) - want2) <= 1e-9 * max(1.0, abs(want2)) and np.allclose(lw2[:, j], lws2, rtol=1e-9, atol=1e-9)):
                    chk.fail("after scoring, assigning new weights and scoring again the log-likelihood is not that of the new weights (got %r want %r)" % (float(got2[j]), want2),
                             {"entry": "score; weights = ...; score", "old_weights": hexlist(w), "weights": hexlist(w2), "means": hexlist(m.means),
                              "variances": hexlist(V), "shape": [C, D], "x": hexlist(X[j])})
                    break
            m.weights = np.asarray(w)
            chk.count(1, key=("rescore-after-set-weights", C))
        # samples stored in single / half precision: the score is that of the VALUES (the machine's parameters are not narrowed to the data's type)
        if i % 5 == 3:
            for dt_ in (np.float32, np.float16):
                Xn_ = np.asarray(X, dtype=dt_)
                if not np.all(np.isfinite(Xn_)):
                    continue
                got_n = np.asarray(m.log_likelihood(Xn_), dtype=float)
                want_n = np.asarray(m.log_likelihood(Xn_.astype(np.float64)), dtype=float)
                chk.count(1, key=("narrow float samples", np.dtype(dt_).name))
                if not np.allclose(got_n, want_n, rtol=1e-12, atol=1e-12, equal_nan=True):
                    chk.fail("log_likelihood of %s samples differs from that of the same values in float64 (largest difference %.3g)"
                             % (np.dtype(dt_).name, float(np.nanmax(np.abs(got_n - want_n)))), {"entry": "log_likelihood(%s)" % np.dtype(dt_).name, "x": hexlist(Xn_.astype(float)), "shape": [C, D]})
        # the same values in other containers / memory layouts score identically
        if i % 5 == 1:
            for lname, Xl in gen.layouts(X):
                try:
                    ll_l = np.asarray(m.log_likelihood(Xl))
                    st_l = m.acc_stats(Xl)
                except Exception as e:
                    chk.fail("log_likelihood / acc_stats on a %s input raises %r" % (lname, e), {"layout": lname, "x": hexlist(X), "shape": [C, D]})
                    continue
                chk.count(1, key=("layout", lname))
                # (equal up to the rounding of NumPy's summation order, which may depend on the memory layout)
                ll_c = np.asarray(m.log_likelihood(X))
                sxx_c = np.asarray(m.acc_stats(X).sum_pxx)
                if not (np.allclose(ll_l, ll_c, rtol=1e-11, atol=1e-11) and np.allclose(np.asarray(st_l.sum_pxx), sxx_c, rtol=1e-10, atol=1e-12 * (1 + float(np.abs(sxx_c).max())))):
                    chk.fail("log_likelihood / acc_stats differ for the same values given as %s" % lname, {"layout": lname, "x": hexlist(X), "shape": [C, D]})
        if earlier is not None:
            m_e, X_e, ll_e = earlier
            again = np.asarray(m_e.log_likelihood(X_e))
            if not np.array_equal(again, ll_e):
                chk.fail("a machine scores differently after ANOTHER machine was constructed / had its parameters assigned (shared derived state)",
                         {"entry": "score A; build B; score A", "x": hexlist(X_e), "weights": hexlist(m_e.weights), "means": hexlist(m_e.means),
                          "variances": hexlist(m_e.variances), "shape": list(np.asarray(m_e.means).shape), "before": hexlist(ll_e), "after": hexlist(again)})
        earlier = (m, np.array(X), np.array(ll))
        # a lazy Dask score is the score under the parameters in force when it was asked for, even if the machine is re-parameterised before compute;
        # and a variance array handed to the setter is not watched afterwards (the caller may reuse its buffer)
        if i % 6 == 4 and tiny is None and N >= 2:
            lazy = m.log_likelihood(da.from_array(X, chunks=((1, N - 1), (D,))))
            keep_mu = np.array(m.means)
            m.means = keep_mu + 3.0 * np.sqrt(V)
            late = np.asarray(lazy.compute())
            m.means = keep_mu
            chk.count(1, key=("lazy-then-reparameterised",))
            if not np.allclose(late, ll, rtol=1e-12, atol=0):
                chk.fail("a lazy Dask log-likelihood computed after the machine was re-parameterised is not the score under the parameters in force at the call",
                         {"entry": "lazy = log_likelihood(dask); means = ...; lazy.compute()", "x": hexlist(X), "shape": [C, D]})
            buf = np.array(V, dtype=float) * 2.0
            m.variances = buf
            want_b = np.asarray(m.log_likelihood(X)).copy()
            buf *= 5.0                                   # the caller reuses its buffer
            got_b = np.asarray(m.log_likelihood(X))
            chk.count(1, key=("caller-buffer-reused",))
            if not np.array_equal(got_b, want_b):
                chk.fail("modifying, in place, the array that was assigned to variances changes the machine's scores (the setter kept the caller's array)",
                         {"entry": "variances = buf; buf *= 5", "x": hexlist(X), "shape": [C, D]})
            m.variances = np.array(V)
        # acc_stats log-likelihood is the sum
        st = m.acc_stats(X)
        if not abs(float(st.log_likelihood) - float(ll.sum())) <= 1e-9 * max(1.0, abs(float(ll.sum()))):
            chk.fail("acc_stats(X).log_likelihood != sum of log_likelihood(X)", {"x": hexlist(X)})
        # row-chunked dask arrays
        if N >= 2 and i % 3 == 0:
            for parts in (gen.compositions(N) if N <= 5 else [gen.random_composition(r, N)]):
                dX = da.from_array(X, chunks=(tuple(parts), (D,)))
                dl = np.asarray(m.log_likelihood(dX).compute())
                chk.count(1, key=("dask", len(parts)))
                if not np.allclose(dl, ll, rtol=1e-12, atol=0, equal_nan=False):
                    chk.fail("Dask row-chunking %s changes log_likelihood" % (parts,),
                             {"entry": "log_likelihood dask", "chunks": list(parts), "x": hexlist(X)})
    # ---- exact ties between the largest component terms (the same Gaussian listed twice; a +-mu mixture scored on its symmetry plane)
    for j in range(6 if chk.tier == "quick" else 60):
        D = r.choice([1, 2, 3])
        g = gen.nprng(r)
        mu1 = np.round(g.normal(size=D) * 2, 3)
        v1 = np.round(g.uniform(0.5, 2.0, size=D), 3)
        if j % 2:
            wt_, mut_, vart_ = np.array([0.25, 0.25, 0.5]), np.vstack([mu1, mu1, mu1 + 3.0]), np.vstack([v1, v1, v1])
            Xt_ = np.vstack([mu1, mu1 + 0.5, mu1 - 1.0])
        else:
            wt_, mut_, vart_ = np.array([0.5, 0.5]), np.vstack([mu1, -mu1]), np.vstack([v1, v1])
            Xt_ = np.vstack([np.zeros(D), np.zeros(D)])
        mt_ = make_gmm(wt_, mut_, vart_)
        got_t = np.asarray(mt_.log_likelihood(Xt_), dtype=float)
        want_t = np.array([ref_ll(wt_, mut_, vart_, x)[0] for x in Xt_])
        gd_ = np.asarray(mt_.log_likelihood(da.from_array(Xt_, chunks=((1, len(Xt_) - 1), (D,)))).compute(), dtype=float)
        chk.count(1, key=("tied component terms", j % 2))
        if not (np.allclose(got_t, want_t, rtol=1e-12, atol=1e-12) and np.allclose(gd_, want_t, rtol=1e-12, atol=1e-12)):
            chk.fail("with exactly tied component terms (%s) log_likelihood is %s instead of %s" % ("a Gaussian listed twice" if j % 2 else "a +-mu mixture on its symmetry plane", got_t.tolist(), want_t.tolist()),
                     {"entry": "log_likelihood, tied terms", "w": hexlist(wt_), "mu": hexlist(mut_), "var": hexlist(vart_), "x": hexlist(Xt_)})
    # ---- machines as the package's own trainers leave them (ML / MAP with weight and variance adaptation, NumPy input, also a public
    #      M-step on hand-held statistics): the reported log-likelihood is the formula under the machine's VISIBLE parameters
    from .. import gmmtrain as gt
    for j in range(12 if chk.tier == "quick" else 200):
        w_, mu_, var_, s_, X_ = gt.gen_training(r, C=r.choice([2, 3]), D=r.choice([1, 2]), N=r.choice([9, 14]))
        trainer = ("ml", "map", "map-array")[j % 3]
        cfg = dict(w=w_, mu=mu_, var=var_, thr=1e-6 * s_ ** 2, sw=(True, bool(j % 2), True), eps=float(np.finfo(float).eps), cap=r.choice([1, 2]), cthr=None)
        if trainer != "ml":
            al_ = 0.5 if trainer == "map" else np.linspace(0.2, 0.8, len(w_))
            cfg = dict(cfg, w=None, mu=None, var=None, map=dict(relevance=4.0 if trainer == "map" else None, alpha=al_, prior=(w_, mu_ + 0.5 * s_, var_, 1e-6 * s_ ** 2)))
        mt, _pr = gt.build_machine(cfg)
        if gt.run_fit(mt, X_) is None:
            continue
        got = np.asarray(mt.log_likelihood(X_), dtype=float)
        wv, muv, vv = np.asarray(mt.weights, dtype=float), np.asarray(mt.means, dtype=float), np.asarray(mt.variances, dtype=float)
        want = np.array([ref_ll(wv, muv, vv, x)[0] for x in X_])
        chk.count(1, key=("after-training", trainer, bool(j % 2)))
        if not np.allclose(got, want, rtol=1e-10, atol=1e-10):
            chk.fail("after %s training (means%s and weights updated, NumPy input) log_likelihood is not log sum_c w_c N(x; mu_c, var_c) of the machine's visible parameters: largest difference %.3g (visible weights sum to %.6g)"
                     % (trainer.upper(), ", variances" if j % 2 else "", float(np.abs(got - want).max()), float(wv.sum())),
                     {"entry": "fit then log_likelihood", "trainer": trainer, "w": hexlist(wv), "mu": hexlist(muv), "var": hexlist(vv), "x": hexlist(X_)})
    bad, info = cq.run_cases("C01", IMPORTS, "ll_case", "ll_check", terms)
    chk.correspondence("GMMMachine.log_likelihood/log_weighted_likelihood ~ MF.log_likelihood/MF.lwl", len(terms), bad, info)
    if bad:
        chk.notes["first_bad_meta"] = [metas[b] for b in bad[:5]]
    chk.partial = ["integrates-to-one is proved for each one-dimensional Gaussian factor (gauss1_integral, with the Gaussian integral itself proved in GaussIntAux.v); the product over features as a multiple integral is not formalised",
                   "binary64 finiteness in the tails is exhibited by the float model and the implementation runs, not proved"]
    return chk.finish(
        rule="structured generator: C in {1..8}, D in {1,2,3,5} and 60/150/400 (product of variances outside the binary64 range), single samples as vectors and in batches, feature scales unit/1e-3..1e3/1e-6..1e6, variance floors none/scalar/per-feature, "
             "samples drawn from the machine, from a shifted machine, duplicated, and 10/100/1000/3000 sigma in the tail; distinct = "
             "(entry, C, D, scale, mode, floor active) or (dask, number of chunks)",
        assumptions=["exp/ln of the float model are within a few ulp of libm (measured by this run)"])
