"""C02  GMM statistics are responsibility-weighted moments, additive over any split."""
import copy
import math

import numpy as np

from .. import coqio as cq
from .. import gen
from ..impl import GMMStats, da, gmm_term, hexlist, make_gmm, stats_term

IMPORTS = "Model.GMM Corr.CorrBase Corr.CorrGMM"


def stats_close(a, b, rtol=1e-10):
    def c(x, y):
        x, y = np.asarray(x, dtype=float), np.asarray(y, dtype=float)
        return x.shape == y.shape and np.allclose(x, y, rtol=rtol, atol=rtol * (1.0 + np.abs(y).max() if y.size else 1.0))
    return (int(a.t) == int(b.t) and c(a.n, b.n) and c(a.sum_px, b.sum_px) and c(a.sum_pxx, b.sum_pxx)
            and c(a.log_likelihood, b.log_likelihood))


def dump(s):
    return {"t": int(s.t), "n": hexlist(s.n), "sum_px": hexlist(s.sum_px), "sum_pxx": hexlist(s.sum_pxx),
            "ll": float(s.log_likelihood)}


def run(chk):
    chk.prove()
    r = gen.rng(chk.seed, "C02")
    n_cases = 60 if chk.tier == "quick" else 600
    es_terms, add_terms = [], []
    # ---- a component whose (positive) weight is far below machine epsilon, and samples that sit on it, many sigma away from the others: the
    #      responsibilities are the posterior ones computed in the log domain (the tiny weight is not lifted to eps)
    for j in range(4 if chk.tier == "quick" else 60):
        D = r.choice([1, 2])
        wt = np.array([1.0 - 1e-30, 1e-30]) if j % 2 else np.array([0.5 - 5e-41, 0.5 - 5e-41, 1e-40])
        Ct = len(wt)
        mut = np.vstack([np.full(D, 4.0 * c_) for c_ in range(Ct - 1)] + [np.full(D, 40.0)])
        vart = np.ones((Ct, D))
        mt = make_gmm(wt, mut, vart)
        g = gen.nprng(r)
        Xt = np.vstack([mut[-1] + 0.1 * g.normal(size=(3, D)), mut[0] + g.normal(size=(4, D)), mut[-1] - 9.0 + 0.1 * g.normal(size=(2, D))])
        comp = np.log(wt)[:, None] - 0.5 * (((Xt[None, :, :] - mut[:, None, :]) ** 2 / vart[:, None, :]).sum(-1) + np.log(2 * np.pi * vart).sum(-1)[:, None])
        lse = comp.max(axis=0) + np.log(np.exp(comp - comp.max(axis=0)).sum(axis=0))
        resp = np.exp(comp - lse)
        st_t = mt.acc_stats(Xt)
        chk.count(1, key=("weight far below eps", Ct))
        if not (np.allclose(np.asarray(st_t.n), resp.sum(axis=1), rtol=1e-9, atol=1e-12) and abs(float(st_t.log_likelihood) - float(lse.sum())) <= 1e-9 * abs(float(lse.sum()))):
            chk.fail("with a component weight of %.0e the accumulated responsibilities %s are not the posterior ones %s" % (float(wt[-1]), np.asarray(st_t.n).tolist(), resp.sum(axis=1).tolist()),
                     {"weights": hexlist(wt), "means": hexlist(mut), "variances": hexlist(vart), "X": hexlist(Xt)})
    for i in range(n_cases):
        C = r.choice([1, 2, 3, 4])
        D = r.choice([1, 2, 3])
        scale = r.choice(["unit", "unit", "mixed"])
        w, mu, var, s = gen.gen_gmm(r, C, D, scale)
        # (the statistics do not depend on the machine's TRAINING switches: every other case has them all off / mixed)
        m = make_gmm(w, mu, var) if i % 2 else make_gmm(w, mu, var, update_means=bool(i % 4 == 0 and False), update_variances=False, update_weights=bool(i % 4))
        N = r.choice([1, 2, 3, 4, 5, 6]) if chk.tier == "quick" else r.choice([1, 2, 3, 4, 5, 6, 9])
        mode = r.choice(["model", "shift", "tail10", "dup"])
        X = gen.gen_data(r, w, mu, var, N, mode)
        N = len(X)
        whole = m.acc_stats(X)
        es_terms.append("{| ec_m := %s; ec_nf := %s; ec_x := %s; ec_out := %s |}" % (gmm_term(m), cq.nat(D), cq.mat(X), stats_term(whole)))
        chk.count(1, key=("e_step", C, D, scale, mode, N))
        if i < 2:
            chk.sample({"entry": "acc_stats", "C": C, "D": D, "N": N, "mode": mode, "stats": dump(whole)})
        ctx = {"weights": hexlist(m.weights), "means": hexlist(m.means), "variances": hexlist(m.variances),
               "shape": [C, D], "X": hexlist(X)}
        # ---- oracle: the moments, recomputed from the responsibilities
        lwl = np.asarray(m.log_weighted_likelihood(X))
        ll = np.asarray(m.log_likelihood(X))
        resp = np.exp(lwl - ll[None, :])
        n_ref = [math.fsum(resp[c]) for c in range(C)]
        px_ref = [[math.fsum(resp[c, k] * X[k, d] for k in range(N)) for d in range(D)] for c in range(C)]
        pxx_ref = [[math.fsum(resp[c, k] * X[k, d] * X[k, d] for k in range(N)) for d in range(D)] for c in range(C)]
        scale_x = max(1.0, float(np.abs(X).max()))
        if not (int(whole.t) == N and np.all(np.asarray(whole.n) >= 0)
                and abs(float(np.sum(whole.n)) - N) <= 1e-9 * N
                and np.allclose(whole.n, n_ref, rtol=1e-9, atol=1e-12)
                and np.allclose(whole.sum_px, px_ref, rtol=1e-9, atol=1e-12 * scale_x)
                and np.allclose(whole.sum_pxx, pxx_ref, rtol=1e-9, atol=1e-12 * scale_x ** 2)
                and abs(float(whole.log_likelihood) - math.fsum(ll)) <= 1e-9 * max(1.0, abs(math.fsum(ll)))):
            chk.fail("acc_stats is not (T, sum r, sum r x, sum r x^2, sum ll)", dict(ctx, got=dump(whole)))
        # ---- every composition of the rows (n <= 6), + and +=
        comps = gen.compositions(N) if N <= 6 else [gen.random_composition(r, N) for _ in range(8)]
        for parts in comps:
            blocks = gen.split_rows(X, parts)
            sts = [m.acc_stats(b) for b in blocks]
            acc = sts[0]
            for t in sts[1:]:
                acc = acc + t
            acc2 = copy.deepcopy(sts[0])
            for t in sts[1:]:
                acc2 += t
            chk.count(1, key=("split", len(parts)))
            if not (stats_close(acc, whole) and stats_close(acc2, whole)):
                chk.fail("split-and-add over composition %s differs from whole-set statistics" % (parts,),
                         dict(ctx, composition=list(parts), whole=dump(whole), added=dump(acc), iadded=dump(acc2)))
        # accumulation into a fresh, empty container with += ; the operands must stay what they were
        if N >= 3:
            parts3 = gen.random_composition(r, N, 4)
            sts = [m.acc_stats(b) for b in gen.split_rows(X, parts3)]
            keep = [dump(t) for t in sts]
            acc0 = GMMStats(C, D)
            for t in sts:
                acc0 += t
            chk.count(1, key=("iadd-into-empty", len(parts3)))
            if not stats_close(acc0, whole):
                chk.fail("accumulating blocks %s into an empty GMMStats with += differs from whole-set statistics" % (parts3,), dict(ctx, composition=list(parts3)))
            if [dump(t) for t in sts] != keep:
                chk.fail("accumulating into an empty GMMStats with += changed the operands (blocks %s)" % (parts3,), dict(ctx, composition=list(parts3)))
            # the same starting from `empty + first` (binary +) and continuing with += ; and `first + empty` continued with += :
            # the running total is an object of its own, the operands stay what they were, the total is the whole-set statistics
            for side in ("empty + s", "s + empty"):
                sts2 = [m.acc_stats(b) for b in gen.split_rows(X, parts3)]
                keep2 = [dump(t) for t in sts2]
                run_ = (GMMStats(C, D) + sts2[0]) if side == "empty + s" else (sts2[0] + GMMStats(C, D))
                for t in sts2[1:]:
                    run_ += t
                chk.count(1, key=("binary + with an empty operand, then +=", side))
                if not stats_close(run_, whole):
                    chk.fail("`%s` continued with += over blocks %s differs from whole-set statistics" % (side, parts3), dict(ctx, composition=list(parts3)))
                if [dump(t) for t in sts2] != keep2:
                    chk.fail("`%s` continued with += changed the first operand (the sum shares storage with it; blocks %s)" % (side, parts3), dict(ctx, composition=list(parts3)))
            # a container that was re-initialised (reset / init_fields / resize) accumulates like a fresh one
            for how in ("reset", "init_fields", "resize"):
                accr = GMMStats(C, D) if how != "resize" else GMMStats(C + 1, D + 2)
                if how == "reset":
                    accr += sts[0]
                    accr.reset()
                elif how == "init_fields":
                    accr.init_fields()
                else:
                    accr.resize(C, D)
                for t in sts:
                    accr += t
                chk.count(1, key=("iadd-after", how))
                if not stats_close(accr, whole):
                    chk.fail("a GMMStats container re-initialised with %s() and then filled with += differs from the whole-set statistics" % how,
                             dict(ctx, composition=list(parts3), reinitialised_with=how, got=dump(accr), want=dump(whole)))
            # statistics of Dask blocks (their fields are lazy Dask arrays) add up with + and += like NumPy ones
            if len(parts3) >= 2:
                dsts = [m.acc_stats(da.from_array(np.asarray(b), chunks=(len(b), D))) for b in gen.split_rows(X, parts3)]
                try:
                    tot = dsts[0]
                    for t in dsts[1:]:
                        tot = tot + t
                    tot2 = copy.deepcopy(dsts[0])
                    for t in dsts[1:]:
                        tot2 += t
                    okd = True
                    for cand in (tot, tot2):
                        cn = GMMStats(C, D)
                        cn.t, cn.n, cn.sum_px, cn.sum_pxx = int(cand.t), np.asarray(cand.n), np.asarray(cand.sum_px), np.asarray(cand.sum_pxx)
                        cn.log_likelihood = float(cand.log_likelihood)
                        okd = okd and stats_close(cn, whole)
                    chk.count(1, key=("dask-backed +", len(parts3)))
                    if not okd:
                        chk.fail("statistics of Dask blocks added with + / += differ from the whole-set statistics", dict(ctx, composition=list(parts3)))
                except Exception as e:
                    chk.fail("adding statistics of Dask blocks with + / += raises %r" % (e,), dict(ctx, composition=list(parts3)))
            # the reduction the M-step wrapper performs over k per-chunk statistics (k = 1..5, odd and even)
            from bob.learn.em import gmm as gmm_module
            for k in range(1, min(N, 5) + 1):
                partsk = gen.random_composition(r, N, k) if k < N else tuple([1] * N)
                if len(partsk) != k:
                    continue
                m_a = make_gmm(np.array(m.weights), np.array(m.means), np.array(m.variances), update_variances=True, update_weights=True)
                m_b = make_gmm(np.array(m.weights), np.array(m.means), np.array(m.variances), update_variances=True, update_weights=True)
                gmm_module.m_step([m_a.acc_stats(X)], m_a)
                gmm_module.m_step([m_b.acc_stats(bk) for bk in gen.split_rows(X, partsk)], m_b)
                chk.count(1, key=("m_step-reduce", k))
                if not (np.allclose(m_a.means, m_b.means, rtol=1e-9, atol=1e-12) and np.allclose(m_a.weights, m_b.weights, rtol=1e-9, atol=1e-12)
                        and np.allclose(m_a.variances, m_b.variances, rtol=1e-8, atol=1e-12 * scale_x ** 2)):
                    chk.fail("m_step over %d per-chunk statistics differs from m_step over the whole-set statistics" % k, dict(ctx, composition=list(partsk)))
        # ---- other storage types of the same values (narrow integers whose squares would wrap, single precision): the statistics are
        #      those of the VALUES; compared with the float64 copy of the same array
        if i % 3 == 1:
            lo_x, ptp = float(X.min()), float(np.ptp(X)) or 1.0
            for dt, lo, hi in ((np.uint8, 0, 255), (np.int16, -30000, 30000), (np.int8, -128, 127), (np.float32, None, None)):
                if dt is np.float32:
                    k, off = 1.0, 0.0
                    Xq = X.astype(np.float32)
                else:
                    k = (hi - lo) / ptp
                    off = lo - lo_x * k
                    Xq = np.clip(np.rint(X * k + off), lo, hi).astype(dt)
                mq = make_gmm(np.asarray(m.weights), np.asarray(m.means) * k + off, np.asarray(m.variances) * k * k)
                s_t = mq.acc_stats(Xq)
                s_f = mq.acc_stats(Xq.astype(np.float64))
                chk.count(1, key=("dtype", np.dtype(dt).name))
                if not stats_close(s_t, s_f):
                    chk.fail("acc_stats on %s data differs from acc_stats on the float64 copy of the same values" % np.dtype(dt).name,
                             {"dtype": np.dtype(dt).name, "X": hexlist(Xq.astype(np.float64)), "weights": hexlist(mq.weights), "means": hexlist(mq.means),
                              "variances": hexlist(mq.variances), "shape": [C, D], "typed": dump(s_t), "float64": dump(s_f)})
                if N >= 2:
                    sd = mq.acc_stats(da.from_array(Xq, chunks=((1, N - 1), (D,))))
                    sdn = GMMStats(C, D)
                    sdn.t, sdn.n, sdn.sum_px, sdn.sum_pxx = int(sd.t), np.asarray(sd.n), np.asarray(sd.sum_px), np.asarray(sd.sum_pxx)
                    sdn.log_likelihood = float(sd.log_likelihood)
                    if not stats_close(sdn, s_f):
                        chk.fail("acc_stats on a Dask array of %s data differs from the float64 NumPy result" % np.dtype(dt).name,
                                 {"dtype": np.dtype(dt).name, "X": hexlist(Xq.astype(np.float64)), "shape": [C, D]})
        # a block without frames (an empty utterance, an empty Dask chunk): zero statistics, the identity of the addition
        if i % 3 == 0:
            try:
                e0 = m.acc_stats(X[0:0])
                okz = (int(e0.t) == 0 and np.all(np.asarray(e0.n) == 0) and np.all(np.asarray(e0.sum_px) == 0) and np.all(np.asarray(e0.sum_pxx) == 0)
                       and float(e0.log_likelihood) == 0.0)
                chk.count(1, key=("empty-block",))
                if not okz:
                    chk.fail("the statistics of an empty block are not zero (n = %s)" % np.asarray(e0.n).tolist(), dict(ctx, got=dump(e0)))
                elif not (stats_close(whole + e0, whole) and stats_close(e0 + whole, whole)):
                    chk.fail("adding the statistics of an empty block changes the statistics", ctx)
                if N >= 3:
                    sde = m.acc_stats(da.from_array(X, chunks=((2, 0, N - 2), (D,))))
                    sden = GMMStats(C, D)
                    sden.t, sden.n, sden.sum_px, sden.sum_pxx = int(sde.t), np.asarray(sde.n), np.asarray(sde.sum_px), np.asarray(sde.sum_pxx)
                    sden.log_likelihood = float(sde.log_likelihood)
                    if not stats_close(sden, whole):
                        chk.fail("acc_stats on a Dask array with an empty row chunk (2, 0, %d) differs from NumPy" % (N - 2), ctx)
            except Exception as e:
                chk.fail("statistics of an empty block / a Dask array with an empty chunk raise %r" % (e,), ctx)
        # arbitrary (non-consecutive) blocks
        perm = list(range(N))
        r.shuffle(perm)
        parts = gen.random_composition(r, N)
        blocks = gen.split_rows(X[perm], parts)
        acc = m.acc_stats(blocks[0])
        for b in blocks[1:]:
            acc = acc + m.acc_stats(b)
        if not stats_close(acc, whole):
            chk.fail("arbitrary blocks (permutation %s, sizes %s) do not add up to the whole" % (perm, parts), dict(ctx, perm=perm))
        # transform(list of arrays) = per-array statistics
        tr = m.transform(gen.split_rows(X, parts))
        if not all(stats_close(a, m.acc_stats(b)) for a, b in zip(tr, gen.split_rows(X, parts))):
            chk.fail("transform(list) differs from per-array acc_stats", dict(ctx, sizes=list(parts)))
        # Dask input
        if i % 4 == 0:
            dparts = gen.random_composition(r, N)
            sd = m.acc_stats(da.from_array(X, chunks=(tuple(dparts), (D,))))
            sdn = GMMStats(C, D)
            sdn.t, sdn.n, sdn.sum_px, sdn.sum_pxx = int(sd.t), np.asarray(sd.n), np.asarray(sd.sum_px), np.asarray(sd.sum_pxx)
            sdn.log_likelihood = float(sd.log_likelihood)
            chk.count(1, key=("dask", len(dparts)))
            if not stats_close(sdn, whole):
                chk.fail("acc_stats on a Dask array (chunks %s) differs from NumPy" % (dparts,), dict(ctx, chunks=list(dparts)))
        # addition correspondence + refusal of incompatible shapes
        if N >= 2:
            a, b = m.acc_stats(X[: N // 2]), m.acc_stats(X[N // 2:])
            add_terms.append("{| ac_shape_a := (%s, %s); ac_a := %s; ac_shape_b := (%s, %s); ac_b := %s; ac_out := Some %s |}" % (
                cq.nat(C), cq.nat(D), stats_term(a), cq.nat(C), cq.nat(D), stats_term(b), stats_term(a + b)))
        other = GMMStats(C + r.choice([0, 1]), D + 1) if r.random() < 0.5 else GMMStats(C + 1, D)
        for op in ("+", "+="):
            try:
                if op == "+":
                    whole + other
                else:
                    c2 = copy.deepcopy(whole)
                    c2 += other
                refused = False
            except ValueError:
                refused = True
                if op == "+=" and dump(c2) != dump(whole):
                    chk.fail("a refused += (shapes %s and %s) left the accumulator partly updated" % (whole.shape, other.shape),
                             {"shape_a": list(whole.shape), "shape_b": list(other.shape), "before": dump(whole), "after": dump(c2)})
            chk.count(1, key=("refuse", op))
            if not refused:
                chk.fail("adding statistics of shapes %s and %s with %s is not refused" % (whole.shape, other.shape, op),
                         {"shape_a": list(whole.shape), "shape_b": list(other.shape), "op": op})
        add_terms.append("{| ac_shape_a := (%s, %s); ac_a := %s; ac_shape_b := (%s, %s); ac_b := %s; ac_out := None |}" % (
            cq.nat(C), cq.nat(D), stats_term(whole), cq.nat(other.n_gaussians), cq.nat(other.n_features), stats_term(other)))
    bad, info = cq.run_cases("C02e", IMPORTS, "es_case", "es_check", es_terms)
    chk.correspondence("GMMMachine.acc_stats ~ MF.e_step", len(es_terms), bad, info)
    bad, info = cq.run_cases("C02a", IMPORTS, "add_case", "add_check", add_terms)
    chk.correspondence("GMMStats.__add__ ~ MF.stats_add (incl. refusal)", len(add_terms), bad, info)
    return chk.finish(
        rule="machines C<=4, D<=3, unit/mixed scales; data from the machine / shifted / tail / duplicated rows; all 2^(n-1) compositions for n<=6 "
             "(sampled above), a random permutation into arbitrary blocks, Dask row chunkings, + and +=, incompatible shapes; distinct = "
             "(e_step, C, D, scale, mode, N) | (split, #blocks) | (dask, #chunks) | (refuse, op)",
        assumptions=["exp/ln of the float model within a few ulp of libm (measured)"])
