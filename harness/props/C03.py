"""C03  GMM ML training never decreases the likelihood and stops by its stated rule."""
import copy
import itertools

import numpy as np

from .. import coqio as cq
from .. import dasksched
from .. import gen
from .. import gmmtrain as gt
from ..impl import LogCounter, da, hexlist

SWITCHES = list(itertools.product([True, False], repeat=3))


def placed_threshold(cvs):
    """cvs[i] is the convergence value observed at step i+2.  Returns (k, thr) such that the rule
    stops exactly at step k with a comfortable margin, or None."""
    best = None
    for i, cv in enumerate(cvs):
        prev = min(cvs[:i]) if i else float("inf")
        if cv > 0 and cv * 1.05 < prev:
            thr = (cv * min(prev, cv * 100.0)) ** 0.5
            best = (i + 2, thr)
    return best


def run(chk):
    chk.prove()
    r = gen.rng(chk.seed, "C03")
    n_cases = 48 if chk.tier == "quick" else 1600
    terms = []
    eps = float(np.finfo(float).eps)
    for i in range(n_cases):
        sw = SWITCHES[i % 8]
        w, mu, var, s, X = gt.gen_training(r)
        C, D = mu.shape
        if i % 5 == 4:
            # tightly clustered / small-scale features: densities above 1, positive average log-likelihood
            k = r.choice([1e-2, 1e-3])
            X, mu, var, s = X * k, mu * k, var * k * k, s * k
        thr = r.choice([None, None, 1e-4 * float(s.min()) ** 2, list(0.05 * s ** 2)])
        K = r.choice([1, 2, 3, 5])
        chunks = None if i % 3 else gen.random_composition(r, len(X), 4)
        cfg = dict(w=w, mu=mu, var=var, thr=thr, sw=sw, eps=eps, cap=K, cthr=None)
        ctx = {"switches(means,vars,weights)": list(sw), "cap": K, "chunks": list(chunks) if chunks else None,
               "X": hexlist(X), "shape": [C, D], "w": hexlist(w), "mu": hexlist(mu), "var": hexlist(var),
               "thr": thr if not isinstance(thr, list) else [float(t) for t in thr]}
        # ---- step-by-step trajectory on the implementation (each call = one EM iteration, warm start)
        m, _ = gt.build_machine(dict(cfg, cap=1))
        traj, floor_flags, snaps = [], [], []
        for k in range(K + 1):
            snaps.append(copy.deepcopy(m))
            traj.append(float(np.mean(m.log_likelihood(X))))
            st = m.acc_stats(X)
            before_v = np.array(m.variances, copy=True)
            if k == K:
                break
            before_w, before_mu = np.array(m.weights, copy=True), np.array(m.means, copy=True)
            m.fit(X)
            # the M-step itself, parameter by parameter: weights max(n, eps)/T, means sum_px / max(n, eps); what is not updated stays put
            nn = np.maximum(np.asarray(st.n, dtype=float), eps)
            want_w = nn / float(st.t) if sw[2] else before_w
            want_mu = np.asarray(st.sum_px) / nn[:, None] if sw[0] else before_mu
            if not (np.allclose(np.asarray(m.weights), want_w, rtol=1e-10, atol=1e-300) and np.allclose(np.asarray(m.means), want_mu, rtol=1e-10, atol=1e-12 * (1 + np.abs(X).max()))
                    and (sw[1] or np.array_equal(np.asarray(m.variances), before_v))):
                chk.fail("after EM iteration %d with switches %s the weights / means are not n/T and sum_px/n of the E-step statistics (or a parameter that is not updated moved)"
                         % (k + 1, sw), dict(ctx, iteration=k + 1, weights=hexlist(m.weights), expected_weights=hexlist(want_w), means=hexlist(m.means), expected_means=hexlist(want_mu)))
                break
            T = gt.thr_matrix(m)
            count_floor = bool(np.any(np.asarray(st.n) < eps))
            var_floor = bool(sw[1] and np.any(np.asarray(m.variances) <= T))
            floor_flags.append(count_floor or var_floor)
        chk.count(1, key=("traj", sw, K, bool(chunks), any(floor_flags)))
        for k in range(K):
            if floor_flags[k]:
                continue
            if not traj[k + 1] >= traj[k] - 1e-9 * max(1.0, abs(traj[k])):
                chk.fail("EM iteration %d lowers the average log-likelihood %.12g -> %.12g with switches %s (no floor active)"
                         % (k + 1, traj[k], traj[k + 1], sw), dict(ctx, iteration=k + 1, trajectory=traj))
                break
        # ---- correspondence case 1: cap K, no threshold (NumPy or Dask chunks)
        c1 = gt.make_case(cfg, X, chunks)
        if c1["well_conditioned"]:
            terms.append(c1["term"])
        else:
            chk.count(1, key=("collapsed-variance case excluded from correspondence",))
        if i < 2:
            chk.sample({"entry": "fit", "switches": list(sw), "cap": K, "chunks": chunks, "steps": c1["steps"],
                        "avg_ll_reported": c1["lls"], "N": len(X), "C": C, "D": D})
        if c1["steps"] != K:
            chk.fail("fit with max_fitting_steps=%d and no threshold performed %d iterations" % (K, c1["steps"]), ctx)
        # the value compared at step k is the average log-likelihood of the parameters entering step k
        # (two differently chunked float runs are only comparable while no variance has collapsed onto a floor: a component sitting on a
        # single point gets the cancellation noise of sum_pxx/n - mean^2 as its variance, which depends on the order of summation)
        comparable = c1["well_conditioned"] and not any(floor_flags)
        if not comparable:
            chk.count(1, key=("collapsed-variance case excluded from the chunked-vs-in-memory comparison",))
        for k, v in enumerate(c1["lls"] if comparable else []):
            if not abs(v - traj[k]) <= 1e-9 * max(1.0, abs(traj[k])):
                chk.fail("reported average log-likelihood at step %d is %.12g, parameters entering the step give %.12g" % (k + 1, v, traj[k]),
                         dict(ctx, reported=c1["lls"], trajectory=traj))
                break
        # final model = K iterations
        if comparable and not (np.allclose(c1["m1"].means, snaps[K].means, rtol=1e-7, atol=1e-9)
                and np.allclose(c1["m1"].variances, snaps[K].variances, rtol=1e-7, atol=1e-12)
                and np.allclose(c1["m1"].weights, snaps[K].weights, rtol=1e-7, atol=1e-12)):
            chk.fail("fit(cap=%d) differs from %d single EM iterations" % (K, K), ctx)
        # ---- stopping rule with a placed threshold
        if K >= 3:
            Kbig = 8
            ctraj = gt.make_case(dict(cfg, cap=Kbig), X, chunks)
            L = ctraj["lls"]
            ctraj["cvs"] = [abs((L[k - 1] - L[k]) / L[k - 1]) for k in range(1, len(L)) if L[k - 1] != 0]   # independent of the logged value
            pt = placed_threshold(ctraj["cvs"])
            if pt:
                kstar, th = pt
                cthr = gt.make_case(dict(cfg, cap=Kbig, cthr=th), X, chunks)
                # the model is compared only when the deciding relative changes are far above the rounding noise of the reported values
                # (a threshold of 1e-15 sits between two values that are a few ulps each: which side of it a run falls on is decided by
                # the summation order, not by the rule; the implementation's own consistency is still checked below for every threshold)
                if cthr["well_conditioned"] and th >= 1e-10:
                    terms.append(cthr["term"])
                chk.count(1, key=("stop", kstar, bool(chunks)))
                ref = gt.make_case(dict(cfg, cap=kstar), X, chunks)
                if cthr["steps"] != kstar:
                    chk.fail("threshold %.3g placed to stop at iteration %d (relative changes %s): stopped at %d"
                             % (th, kstar, ctraj["cvs"], cthr["steps"]), dict(ctx, threshold=th, cvs=ctraj["cvs"]))
                elif not (np.allclose(cthr["m1"].means, ref["m1"].means, rtol=1e-9, atol=1e-12)
                          and np.allclose(cthr["m1"].variances, ref["m1"].variances, rtol=1e-9, atol=1e-12)):
                    chk.fail("model returned after stopping at iteration %d is not the %d-iteration model" % (kstar, kstar),
                             dict(ctx, threshold=th))
            # no iteration limit: must still stop by the threshold
            if i % 4 == 0 and ctraj["cvs"]:
                th = max(ctraj["cvs"]) * 2.0
                cnl = gt.make_case(dict(cfg, cap=None, cthr=th), X, chunks)   # model fuel 60
                if cnl["well_conditioned"]:
                    terms.append(cnl["term"])
                chk.count(1, key=("nolimit", bool(chunks)))
                if cnl["steps"] != 2:
                    chk.fail("no iteration limit, threshold above every relative change: expected to stop at iteration 2, stopped at %d" % cnl["steps"],
                             dict(ctx, threshold=th, cvs=ctraj["cvs"]))
    # ---- a raised mean_var_update_threshold (the count floor): a light component whose count is above the threshold is NOT floored -
    #      every iteration is still the exact M-step (n/T, sum_px/n) and the likelihood does not drop
    for j in range(4 if chk.tier == "quick" else 40):
        sw = SWITCHES[j % 8]
        w, mu, var, s, X = gt.gen_training(r, C=2, N=25, scale="unit")
        C, D = mu.shape
        thr_n = 0.05
        cfgt = dict(w=w, mu=mu, var=var, thr=None, sw=sw, eps=thr_n, cap=1, cthr=None)
        mt, _ = gt.build_machine(cfgt)
        prev = float(np.mean(mt.log_likelihood(X)))
        for k in range(3):
            st = mt.acc_stats(X)
            nn = np.asarray(st.n, dtype=float)
            if np.any(nn < thr_n):
                break
            bw, bm, bv = np.array(mt.weights), np.array(mt.means), np.array(mt.variances)
            mt.fit(X)
            cur = float(np.mean(mt.log_likelihood(X)))
            want_w = nn / float(st.t) if sw[2] else bw
            want_mu = np.asarray(st.sum_px) / nn[:, None] if sw[0] else bm
            chk.count(1, key=("raised-count-threshold", sw))
            if not (np.allclose(mt.weights, want_w, rtol=1e-10) and np.allclose(mt.means, want_mu, rtol=1e-10, atol=1e-12)):
                chk.fail("with mean_var_update_threshold = %g and every count above it (smallest %.3g of %d frames) the M-step is not n/T, sum_px/n" % (thr_n, nn.min(), int(st.t)),
                         {"X": hexlist(X), "shape": [C, D], "w": hexlist(w), "mu": hexlist(mu), "var": hexlist(var), "switches(means,vars,weights)": list(sw), "threshold": thr_n})
                break
            if not np.any(np.asarray(mt.variances) <= gt.thr_matrix(mt)) and not cur >= prev - 1e-9 * max(1.0, abs(prev)):
                chk.fail("with mean_var_update_threshold = %g (no count below it) EM iteration %d lowers the average log-likelihood %.12g -> %.12g" % (thr_n, k + 1, prev, cur),
                         {"X": hexlist(X), "shape": [C, D], "w": hexlist(w), "mu": hexlist(mu), "var": hexlist(var), "switches(means,vars,weights)": list(sw), "threshold": thr_n})
                break
            prev = cur
    # ---- Dask blocks on isolated (serialising) workers, training ended by the iteration cap: the trained parameters come back to the caller
    for j in range(3 if chk.tier == "quick" else 24):
        w, mu, var, s, X = gt.gen_training(r, C=2, N=12, scale="unit")
        C, D = mu.shape
        cfgi = dict(w=w, mu=mu, var=var, thr=None, sw=(True, True, True), eps=eps, cap=2, cthr=None)
        mi, _ = gt.build_machine(cfgi)
        mn, _ = gt.build_machine(cfgi)
        gt.run_fit(mn, X)
        try:
            dasksched.run_under(7 + j, True, lambda: mi.fit(da.from_array(X, chunks=((5, 7), (D,)))))
        except Exception as e:
            chk.fail("fit on Dask blocks under a serialising executor raises %r" % (e,), {"X": hexlist(X), "shape": [C, D]})
            continue
        chk.count(1, key=("isolated-cap-exit",))
        if gt.well_conditioned(mn, X) and not (np.allclose(mi.means, mn.means, rtol=1e-8, atol=1e-10) and np.allclose(mi.weights, mn.weights, rtol=1e-8, atol=1e-12)):
            chk.fail("training on Dask blocks with serialised tasks, ended by the iteration cap, does not return the 2-iteration model (means %s, in memory %s)"
                     % (np.asarray(mi.means).tolist(), np.asarray(mn.means).tolist()), {"X": hexlist(X), "shape": [C, D], "w": hexlist(w), "mu": hexlist(mu), "var": hexlist(var)})
    # ---- continued training: a second fit() of the same object obeys the same rule as a fresh machine with the same parameters
    #      (the test is never made at the first iteration of a call; nothing of the previous call's history enters it);
    #      and Dask input whose row-chunk sizes are unknown (boolean-mask filtering) trains like the same rows in memory
    for j in range(6 if chk.tier == "quick" else 60):
        w, mu, var, s, X = gt.gen_training(r, C=2, N=r.choice([14, 25]), scale="unit")
        C, D = mu.shape
        sw = (True, bool(j % 2), True)
        cfg1 = dict(w=w, mu=mu, var=var, thr=None, sw=sw, eps=eps, cap=2, cthr=None)
        first, _ = gt.build_machine(cfg1)
        gt.run_fit(first, X)
        if not gt.well_conditioned(first, X):
            continue
        th = r.choice([0.5, 1e-2, 1e-6])
        first.max_fitting_steps, first.convergence_threshold = 6, th
        fresh, _ = gt.build_machine(dict(cfg1, w=np.array(first.weights), mu=np.array(first.means), var=np.array(first.variances), cap=6, cthr=th))
        n_again, L_again, _ = gt.run_fit(first, X)
        n_fresh, L_fresh, _ = gt.run_fit(fresh, X)
        chk.count(1, key=("second-fit", th))
        if not (n_again == n_fresh and np.allclose(L_again, L_fresh, rtol=1e-12, atol=1e-12) and np.allclose(first.means, fresh.means, rtol=1e-12, atol=1e-12)):
            chk.fail("a second fit() of the same machine (threshold %g) ran %d iterations, a fresh machine with the same parameters and settings %d (reported %s vs %s)"
                     % (th, n_again, n_fresh, L_again, L_fresh),
                     {"X": hexlist(X), "shape": [C, D], "w": hexlist(w), "mu": hexlist(mu), "var": hexlist(var), "switches(means,vars,weights)": list(sw), "threshold": th})
        # unknown chunk sizes
        keep = np.ones(len(X), dtype=bool)
        keep[r.sample(range(len(X)), 3)] = False
        half = len(X) // 2
        dX = da.concatenate([da.from_array(X[:half], chunks=(half, D)), da.from_array(X[half:], chunks=(len(X) - half, D))[da.from_array(keep[half:], chunks=len(X) - half)]])
        Xkept = np.concatenate([X[:half], X[half:][keep[half:]]])
        ma, _ = gt.build_machine(dict(cfg1, cap=3))
        mb, _ = gt.build_machine(dict(cfg1, cap=3))
        try:
            with LogCounter("bob.learn.em.gmm") as lc:
                ma.fit(dX)
            La = [float(x.split("=")[1]) for x in lc.records if x.startswith("log likelihood = ")]
        except Exception as e:
            chk.fail("fit on a Dask array with unknown row-chunk sizes raises %r" % (e,), {"X": hexlist(X), "kept_rows": keep.tolist(), "shape": [C, D]})
            continue
        nb, Lb, _ = gt.run_fit(mb, Xkept)
        chk.count(1, key=("unknown-chunk-sizes",))
        if gt.well_conditioned(mb, Xkept) and not (np.allclose(La, Lb, rtol=1e-9, atol=1e-9) and np.allclose(ma.means, mb.means, rtol=1e-8, atol=1e-10)):
            chk.fail("training on a Dask array with unknown row-chunk sizes differs from training on the same rows in memory (reported %s vs %s)" % (La, Lb),
                     {"X": hexlist(X), "kept_rows": keep.tolist(), "shape": [C, D], "w": hexlist(w), "mu": hexlist(mu), "var": hexlist(var)})
    # ---- a machine constructed for MAP adaptation and switched to maximum likelihood afterwards (set_params / attribute): it trains like an ML machine
    for j in range(3 if chk.tier == "quick" else 30):
        w, mu, var, s, X = gt.gen_training(r, C=2, N=12, scale="unit")
        from ..impl import GMMMachine as _G2, make_gmm as _mk2
        prior_ = _mk2(w, mu + 0.7 * s, var)
        msw = _G2(n_gaussians=2, trainer="map", ubm=prior_, max_fitting_steps=2, convergence_threshold=None, update_means=True, update_variances=True, update_weights=True,
                  mean_var_update_threshold=eps)
        if j % 2:
            msw.set_params(trainer="ml")
        else:
            msw.trainer = "ml"
        mref, _ = gt.build_machine(dict(w=np.array(msw.weights), mu=np.array(msw.means), var=np.array(msw.variances), thr=None, sw=(True, True, True), eps=eps, cap=2, cthr=None))
        mref.variance_thresholds = np.array(msw.variance_thresholds)
        mref.variances = np.array(msw.variances)
        gt.run_fit(msw, X)
        gt.run_fit(mref, X)
        chk.count(1, key=("trainer switched to ml after construction", j % 2))
        if gt.well_conditioned(mref, X) and not (np.allclose(msw.means, mref.means, rtol=1e-9, atol=1e-12) and np.allclose(msw.weights, mref.weights, rtol=1e-9, atol=1e-12)):
            chk.fail("a machine constructed with trainer='map' and switched to 'ml' (%s) before fit does not train like an ML machine started from the same parameters"
                     % ("set_params" if j % 2 else "attribute assignment"), {"X": hexlist(X), "w": hexlist(w), "mu": hexlist(mu), "var": hexlist(var)})
    # ---- the iteration cap given as a NumPy integer (what a machine restored from a file carries): honoured like the built-in int
    import os as _os, tempfile as _tf
    from ..impl import GMMMachine as _GMM
    for j in range(3 if chk.tier == "quick" else 30):
        w, mu, var, s, X = gt.gen_training(r, C=2, N=12, scale="unit")
        capn = r.choice([1, 2, 3])
        # (a threshold of 1e-9 is far below the changes of the first three iterations, so the cap decides; it only makes sure that training ends
        #  by itself should the cap be ignored)
        ref_m, _ = gt.build_machine(dict(w=w, mu=mu, var=var, thr=None, sw=(True, True, True), eps=eps, cap=capn, cthr=1e-9))
        nref, _, _ = gt.run_fit(ref_m, X)
        mn, _ = gt.build_machine(dict(w=w, mu=mu, var=var, thr=None, sw=(True, True, True), eps=eps, cap=capn, cthr=1e-9))
        mn.max_fitting_steps = np.int64(capn)
        with _tf.TemporaryDirectory() as td_:
            path_ = _os.path.join(td_, "m.h5")
            ms, _ = gt.build_machine(dict(w=w, mu=mu, var=var, thr=None, sw=(True, True, True), eps=eps, cap=capn, cthr=1e-9))
            ms.save(path_)
            ml_ = _GMM.from_hdf5(path_)
        for nm_, mm_ in (("numpy.int64 cap", mn), ("machine restored from a file", ml_)):
            nn_, _, _ = gt.run_fit(mm_, X)
            chk.count(1, key=("cap type", nm_))
            if not (nn_ == nref and np.allclose(mm_.means, ref_m.means, rtol=1e-10, atol=1e-12)):
                chk.fail("max_fitting_steps = %d (%s): training performed %d iterations instead of %d" % (capn, nm_, nn_, capn),
                         {"X": hexlist(X), "w": hexlist(w), "mu": hexlist(mu), "var": hexlist(var), "cap": capn, "how": nm_})
    # ---- the same training values in other containers / memory layouts (Fortran order, strided views, read-only memory, nested lists)
    for j in range(3 if chk.tier == "quick" else 30):
        w, mu, var, s, X = gt.gen_training(r, C=2, N=12, scale="unit")
        C, D = mu.shape
        cfgl = dict(w=w, mu=mu, var=var, thr=None, sw=(True, True, True), eps=eps, cap=2, cthr=None)
        m0, _ = gt.build_machine(cfgl)
        n0, L0, _ = gt.run_fit(m0, X)
        for lname, Xl in gen.layouts(X):
            ml, _ = gt.build_machine(cfgl)
            try:
                nl, Ll, _ = gt.run_fit(ml, Xl)
            except Exception as e:
                chk.fail("GMM training on a %s input raises %r" % (lname, e), {"layout": lname, "X": hexlist(X), "shape": [C, D]})
                continue
            chk.count(1, key=("layout", lname))
            # (another memory layout changes NumPy's summation order: equal up to rounding, which sum x^2/n - mean^2 amplifies by (mean/sd)^2)
            if gt.well_conditioned(m0, X) and not (nl == n0 and np.allclose(Ll, L0, rtol=1e-8, atol=1e-9) and np.allclose(ml.means, m0.means, rtol=1e-8, atol=1e-9 * (1 + float(np.abs(X).max())))):
                chk.fail("GMM training differs for the same values given as %s" % lname, {"layout": lname, "X": hexlist(X), "shape": [C, D]})
    # ---- other storage types of the training values (single precision with a common offset, narrow integers): training sees the VALUES;
    #      the run is the same as on the float64 copy, and in particular every iteration still raises the likelihood
    for j in range(8 if chk.tier == "quick" else 160):
        sw = (bool(j % 2), True, bool((j // 2) % 2))
        w, mu, var, s, X = gt.gen_training(r, C=2, N=14, scale="unit")
        C, D = mu.shape
        dt = [np.float32, np.int16, np.uint8, np.int32][j % 4]
        if dt is np.float32:
            kq, off = 1.0 / float(s.max()), 1.0e4
        else:
            hi = {np.int16: 3.0e4, np.uint8: 250.0, np.int32: 6.0e4}[dt]
            kq, off = 0.35 * hi / float(np.abs(X - X.mean(axis=0)).max() + 1e-300), 0.5 * hi
        Xq = (X * kq + (off - (X * kq).mean(axis=0)))
        Xq = Xq.astype(np.float32) if dt is np.float32 else np.clip(np.rint(Xq), 0 if dt is np.uint8 else -hi, hi).astype(dt)
        X64 = Xq.astype(np.float64)
        mu_q = mu * kq + (off - (X * kq).mean(axis=0))
        cfgq = dict(w=w, mu=mu_q, var=var * kq * kq, thr=None, sw=sw, eps=eps, cap=3, cthr=None)
        ma, _ = gt.build_machine(cfgq)
        mb, _ = gt.build_machine(cfgq)
        na, La, _ = gt.run_fit(ma, Xq)
        nb, Lb, _ = gt.run_fit(mb, X64)
        if not gt.well_conditioned(mb, X64):       # judged on the float64 reference run only: a typed run that collapses while the reference does not IS a difference
            # a collapsed variance (quantised feature, component on one point) makes both runs rounding-dominated: not compared (DESIGN 9.5)
            chk.count(1, key=("dtype", np.dtype(dt).name, "excluded: collapsed variance"))
            continue
        chk.count(1, key=("dtype", np.dtype(dt).name, sw))
        ctxq = {"dtype": np.dtype(dt).name, "X": hexlist(X64), "shape": [C, D], "w": hexlist(w), "mu": hexlist(mu_q), "var": hexlist(var * kq * kq),
                "switches(means,vars,weights)": list(sw), "reported": [La, Lb]}
        if not (na == nb and np.allclose(La, Lb, rtol=1e-9, atol=1e-9) and np.allclose(ma.means, mb.means, rtol=1e-9, atol=1e-9 * off)
                and np.allclose(ma.variances, mb.variances, rtol=1e-7, atol=1e-12)):
            chk.fail("ML training on %s data differs from training on the float64 copy of the same values (reported log-likelihoods %s vs %s)"
                     % (np.dtype(dt).name, La, Lb), ctxq)
    bad, info = cq.run_cases("C03", gt.IMPORTS, "fit_case", "fit_check", terms, shard=60)
    chk.correspondence("GMMMachine.fit (ML; all 8 switch settings; NumPy and Dask chunks; caps and placed thresholds) ~ MF.fit",
                       len(terms), bad, info)
    return chk.finish(
        rule="ML training sets (C<=3, D<=3, N in 6..25, unit/mixed scales, floors none/scalar/per-feature), all 8 update-switch settings in rotation, "
             "caps 1/2/3/5, NumPy or random Dask row chunks; trajectory re-run step by step; thresholds placed between observed relative changes; "
             "distinct = (traj, switches, cap, chunked, floor met) | (stop, k*, chunked)",
        assumptions=["float model accumulates rounding differently from NumPy: rtol 2^-20 on trained parameters"])
