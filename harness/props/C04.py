"""C04  Array training is independent of chunking, task order and worker isolation."""
import copy

import numpy as np

from .. import coqio as cq
from .. import dasksched
from .. import fa
from .. import gen
from .. import gmmtrain as gt
from .. import kmtrain as kt
from ..impl import GMMMachine, KMeansMachine, LogCounter, da, em, hexlist, make_gmm

WCCN, Whitening = em.WCCN, em.Whitening


def close(a, b, rtol=1e-9, atol=1e-11):
    a, b = np.asarray(a, dtype=float), np.asarray(b, dtype=float)
    return a.shape == b.shape and np.allclose(a, b, rtol=rtol, atol=atol * (1.0 + (np.abs(b).max() if b.size else 0)))


def chunkings(r, n, tier, feat=None):
    """Row chunk structures: uneven, single-row, whole; every composition for small n in the thorough tier."""
    out = [(n,), tuple([1] * n)]
    if n >= 3:
        out.append((1, n - 2, 1))
    if tier == "thorough" and n <= 6:
        out = list(gen.compositions(n))
    else:
        out += [gen.random_composition(r, n) for _ in range(2)]
    seen, res = set(), []
    for c in out:
        if c not in seen:
            seen.add(c)
            res.append(c)
    return res


def run(chk):
    chk.prove()
    r = gen.rng(chk.seed, "C04")
    n_rounds = 4 if chk.tier == "quick" else 24
    seeds = [0, 1] if chk.tier == "quick" else [0, 1, 2, 3, 4]
    gterms, kterms = [], []

    def explore(name, n, D, make_ref, make_dask, compare, feat_ok=False, data=None):
        """make_ref() -> reference result on the in-memory array; make_dask(chunks) -> callable run under the scheduler."""
        ref = make_ref()
        for rows in chunkings(r, n, chk.tier):
            fchunks = [(D,)]
            if feat_ok and D >= 2:
                fchunks.append(tuple([1] * D))
                if D >= 3:
                    fchunks.append((1, D - 1))
            for fc in fchunks:
                for iso in (False, True):
                    for sd in seeds:
                        out, s = dasksched.run_under(1000 * chk.seed + sd, iso, lambda: make_dask((rows, fc)))
                        chk.count(1, key=(name, len(rows), len(fc) > 1, iso))
                        why = compare(ref, out)
                        if why:
                            chk.fail("%s on a Dask array differs from the in-memory result: %s (row chunks %s, feature chunks %s, order seed %d, isolated=%s)"
                                     % (name, why, rows, fc, sd, iso),
                                     dict(data or {}, trainer=name, row_chunks=list(rows), feature_chunks=list(fc), order_seed=sd, isolated=iso,
                                          executed_order=s.orders[-1] if s.orders else [], reference=repr(ref)[:1500], got=repr(out)[:1500]))
                            return ref
        return ref

    for rd in range(n_rounds):
        # ------------------------------------------------------------------ k-means (+ variances / weights)
        n = r.choice([5, 6]) if chk.tier == "thorough" and rd % 2 else r.choice([7, 11, 16])
        init, X = kt.gen_clusters(r, K=r.choice([2, 3]), D=r.choice([2, 3]), N=n)
        K, D = init.shape
        cap, thr = r.choice([2, 4]), r.choice([None, 1e-3])

        def km_ref():
            km, steps, _ = kt.run_kfit(init, X, None, cap=cap, cthr=thr)
            return (np.array(km.centroids_), float(km.average_min_distance), steps, km.get_variances_and_weights_for_each_cluster(X))

        def km_dask(ch):
            dX = da.from_array(X, chunks=ch)
            km = KMeansMachine(n_clusters=K, init_method=np.array(init), max_iter=cap, convergence_threshold=thr)
            with LogCounter("bob.learn.em.kmeans") as lc:
                km.fit(dX)
            return (np.array(km.centroids_), float(km.average_min_distance), lc.count, km.get_variances_and_weights_for_each_cluster(dX))

        def km_cmp(a, b):
            if a[2] != b[2]:
                return "iterations %d vs %d" % (b[2], a[2])
            if not close(a[0], b[0]):
                return "centroids"
            if not close(a[1], b[1]):
                return "criterion %r vs %r" % (b[1], a[1])
            if not (close(a[3][0], b[3][0], atol=1e-9) and close(a[3][1], b[3][1])):
                return "cluster variances/weights"
            return None
        if kt.margin_ok(init, X):
            explore("k-means", n, D, km_ref, km_dask, km_cmp, feat_ok=True, data={"X": hexlist(X), "init": hexlist(init), "cap": cap, "cthr": thr})
        # ---- a cluster that captures no sample (a far-away initial centroid): it keeps its centroid on every route
        init_e = np.array(init, dtype=float)
        init_e[-1] = init_e[-1] + 1e3
        ke_, ne_, _ = kt.run_kfit(init_e, X, None, cap=3, cthr=None)
        for rows_e in ((len(X),), tuple(gen.random_composition(r, len(X), 3))):
            kd_, nd_, _ = kt.run_kfit(init_e, X, rows_e, cap=3, cthr=None)
            chk.count(1, key=("k-means, empty cluster", len(rows_e)))
            if not (np.all(np.isfinite(np.asarray(kd_.centroids_))) and close(kd_.centroids_, ke_.centroids_, rtol=1e-9, atol=1e-10)
                    and close(kd_.average_min_distance, ke_.average_min_distance, rtol=1e-9, atol=1e-10)):
                chk.fail("k-means with a cluster that captures no sample: training on a Dask array (row blocks %s) gives centroids %s, in memory %s"
                         % (rows_e, np.asarray(kd_.centroids_).tolist(), np.asarray(ke_.centroids_).tolist()), {"X": hexlist(X), "init": hexlist(init_e), "row_chunks": list(rows_e)})
        # ------------------------------------------------------------------ GMM ML / MAP
        w, mu, var, s, Xg = gt.gen_training(r, N=n)
        C, Dg = mu.shape
        # all switch settings over the rounds (frozen means with updated variances included), and a raised count threshold in every third round
        sw = [(True, True, True), (False, True, True), (True, False, True), (False, True, False), (True, True, False)][rd % 5]
        eps_g = [0.3, 0.05][(rd // 3) % 2] if rd % 3 == 2 else float(np.finfo(float).eps)
        capg = r.choice([2, 3])
        for trainer in ("ml", "map"):
            cfg = dict(w=w, mu=mu, var=var, thr=None, sw=sw, eps=eps_g, cap=capg, cthr=r.choice([None, 1e-4]))
            if trainer == "map":
                cfg = dict(cfg, w=None, mu=None, var=None, map=dict(relevance=4.0, alpha=0.5, prior=(w, mu + 0.5 * s, var, None)))

            def g_ref(cfg=cfg):
                m, _ = gt.build_machine(cfg)
                steps, lls, _ = gt.run_fit(m, Xg)
                return (np.array(m.means), np.array(m.variances), np.array(m.weights), steps, lls)

            def g_dask(ch, cfg=cfg):
                m, _ = gt.build_machine(cfg)
                with LogCounter("bob.learn.em.gmm") as lc:
                    m.fit(da.from_array(Xg, chunks=ch))
                lls = [float(x.split("=")[1]) for x in lc.records if x.startswith("log likelihood = ")]
                return (np.array(m.means), np.array(m.variances), np.array(m.weights), lc.count, lls)

            def g_cmp(a, b):
                if a[3] != b[3]:
                    return "iterations %d vs %d" % (b[3], a[3])
                for nm, x, y in (("means", a[0], b[0]), ("variances", a[1], b[1]), ("weights", a[2], b[2]), ("reported log-likelihoods", a[4], b[4])):
                    if not close(x, y, rtol=1e-8, atol=1e-10):
                        return nm
                return None
            # conditioning policy (as for the correspondence, DESIGN 9.5): when some variance collapses to the level of the cancellation noise of
            # sum x^2/n - mean^2 (a component sitting on one or two points) the reported values are dominated by binary64 rounding, which differs
            # between summation orders; such training problems are not compared (the k-means, FA and whitening explorations still run)
            conditioned = True
            for kk in range(1, capg + 1):
                mk_, _ = gt.build_machine(dict(cfg, cap=kk, cthr=None))
                gt.run_fit(mk_, Xg)
                conditioned = conditioned and gt.well_conditioned(mk_, Xg)
            if not conditioned:
                chk.count(1, key=("GMM %s" % trainer.upper(), "excluded: collapsed variance"))
                continue
            explore("GMM %s" % trainer.upper(), n, Dg, g_ref, g_dask, g_cmp, feat_ok=True,
                    data={"X": hexlist(Xg), "w": hexlist(w), "mu": hexlist(mu), "var": hexlist(var), "switches": list(sw), "cap": capg, "cthr": cfg["cthr"]})
        # ---- a long run under a very tight threshold on workers that see serialised copies: every (however small) update comes back to the
        #      caller, so the run has the same length and result as in memory
        if rd % 2 == 1:
            cfgL = dict(w=w, mu=mu + 0.8 * s, var=var, thr=None, sw=(True, False, False), eps=float(np.finfo(float).eps), cap=400, cthr=1e-13)
            mL, _ = gt.build_machine(cfgL)
            nL, _, _ = gt.run_fit(mL, Xg)
            mD, _ = gt.build_machine(cfgL)
            with LogCounter("bob.learn.em.gmm") as lcL:
                dasksched.run_under(17 + rd, True, lambda: mD.fit(da.from_array(Xg, chunks=((len(Xg) // 2, len(Xg) - len(Xg) // 2), (Dg,)))))
            chk.count(1, key=("GMM ML, tight threshold, serialised tasks", nL >= 10))
            if gt.well_conditioned(mL, Xg) and not (abs(lcL.count - nL) <= 1 and close(mD.means, mL.means, rtol=1e-8, atol=1e-10)):
                chk.fail("GMM ML (means only, threshold 1e-13) on a Dask array with serialised tasks runs %d iterations and in memory %d; largest difference of the means %.3g"
                         % (lcL.count, nL, float(np.abs(np.asarray(mD.means) - np.asarray(mL.means)).max())),
                         {"X": hexlist(Xg), "w": hexlist(w), "mu": hexlist(mu + 0.8 * s), "var": hexlist(var), "threshold": 1e-13, "isolated": True})
        # ---- training switches turned on AFTER construction (attribute assignment), then trained on serialised workers: as in memory
        cfgA = dict(w=w, mu=mu, var=var, thr=None, sw=(True, False, False), eps=float(np.finfo(float).eps), cap=2, cthr=None)
        mA1, _ = gt.build_machine(cfgA)
        mA2, _ = gt.build_machine(cfgA)
        for mm_ in (mA1, mA2):
            mm_.update_variances, mm_.update_weights = True, True
        gt.run_fit(mA1, Xg)
        dasksched.run_under(23 + rd, True, lambda: mA2.fit(da.from_array(Xg, chunks=((len(Xg) // 2, len(Xg) - len(Xg) // 2), (Dg,)))))
        chk.count(1, key=("GMM ML, switches set after construction, serialised tasks",))
        if gt.well_conditioned(mA1, Xg) and not (close(mA2.means, mA1.means, rtol=1e-8, atol=1e-10) and close(mA2.variances, mA1.variances, rtol=1e-7, atol=1e-10) and close(mA2.weights, mA1.weights, rtol=1e-8, atol=1e-10)):
            chk.fail("GMM ML with update_variances / update_weights switched on after construction: training on a Dask array with serialised tasks differs from the in-memory result",
                     {"X": hexlist(Xg), "w": hexlist(w), "mu": hexlist(mu), "var": hexlist(var), "isolated": True})
        # ---- a raised count threshold is a rule about the TOTAL count of a component, not about its count inside one block: one EM iteration from the
        #      generating parameters (well conditioned) on single-row blocks and on a random blocking, every round
        for thr_n in (0.3, 0.05):
            cfg1 = dict(w=w, mu=mu, var=var, thr=None, sw=(True, True, True), eps=thr_n, cap=1, cthr=None)
            mref, _ = gt.build_machine(cfg1)
            gt.run_fit(mref, Xg)
            if not gt.well_conditioned(mref, Xg):
                continue
            for rows in (tuple([1] * len(Xg)), tuple(gen.random_composition(r, len(Xg), 4))):
                md_, _ = gt.build_machine(cfg1)
                md_.fit(da.from_array(Xg, chunks=(rows, (Dg,))))
                chk.count(1, key=("GMM ML, raised count threshold", len(rows)))
                badp = [nm for nm in ("means", "variances", "weights") if not close(getattr(md_, nm), getattr(mref, nm), rtol=1e-8, atol=1e-10)]
                if badp:
                    chk.fail("GMM ML with mean_var_update_threshold=%g: one iteration on a Dask array (row blocks %s) differs from the in-memory result in %s" % (thr_n, rows, badp),
                             {"X": hexlist(Xg), "w": hexlist(w), "mu": hexlist(mu), "var": hexlist(var), "row_chunks": list(rows), "threshold": thr_n})
        # ------------------------------------------------------------------ ISV / JFA from labelled arrays
        if rd % 2 == 0:
            ubm, su = fa.gen_ubm(r, C=2, D=2)
            S, Fr = r.choice([4, 6]), 3
            g = gen.nprng(r)
            Xa = g.normal(size=(S, Fr, 2)) * 1.5 + np.asarray(ubm.means)[g.integers(0, 2, size=S)][:, None, :]
            n0 = r.choice([k for k in range(1, S) if 2 * k != S]) if rd % 4 == 0 else S // 2      # classes of unequal size in every other FA round
            ya = np.array([0] * n0 + [1] * (S - n0))
            if rd % 4 == 2:
                # a number of classes that is not a power of two (3 classes of 1-3 sessions; in the thorough tier also 5)
                S = 6
                Xa = g.normal(size=(S, Fr, 2)) * 1.5 + np.asarray(ubm.means)[g.integers(0, 2, size=S)][:, None, :]
                ya = np.array([0, 1, 1, 2, 2, 2]) if (chk.tier == "quick" or rd % 8 == 2) else np.array([0, 1, 2, 3, 4, 4])
            g.shuffle(ya)
            for kind in ("isv", "jfa"):
                def f_ref(kind=kind):
                    m = fa.make_machine(kind, copy.deepcopy(ubm), 1, 1, em_iterations=2, random_state=3)
                    m.fit_using_array(Xa, ya)
                    return (np.array(m.U), np.array(m.V) if kind == "jfa" else None, np.array(m.D))

                def f_dask(ch, kind=kind):
                    m = fa.make_machine(kind, copy.deepcopy(ubm), 1, 1, em_iterations=2, random_state=3)
                    m.fit_using_array(da.from_array(Xa, chunks=(ch[0], (Fr,), (2,))), ya)
                    return (np.array(m.U), np.array(m.V) if kind == "jfa" else None, np.array(m.D))

                def f_cmp(a, b):
                    for nm, x, y in (("U", a[0], b[0]), ("V", a[1], b[1]), ("D", a[2], b[2])):
                        if x is not None and not close(x, y, rtol=1e-7, atol=1e-9):
                            return nm
                    return None
                explore("%s.fit_using_array" % kind.upper(), S, 2, f_ref, f_dask, f_cmp)
        # ------------------------------------------------------------------ WCCN / whitening
        Dw = r.choice([2, 3])
        nw = 3 * Dw + 4
        g = gen.nprng(r)
        Xw = g.normal(size=(nw, Dw)) @ (g.normal(size=(Dw, Dw)) + 2 * np.eye(Dw)) + 3
        yw = np.array([k % 2 for k in range(nw)])

        # generator precondition: the projections invert the (within-class) covariance, so two float routes agree only to cond * eps; a draw
        # whose mixing matrix is nearly singular (condition number of a covariance above 300) is not compared (the random stream is unchanged)
        def _cond(S):
            ev = np.linalg.eigvalsh(S)
            return float(ev[-1] / max(ev[0], 1e-300))
        Sw_ = sum(np.cov(Xw[yw == c_].T, bias=True) * np.sum(yw == c_) for c_ in (0, 1)) / nw
        ok_w = max(_cond(np.cov(Xw.T)), _cond(Sw_)) < 300.0
        if not ok_w:
            chk.count(1, key=("Whitening/WCCN draw with an ill-conditioned covariance: not compared",))

        def w_cmp(a, b):
            return None if (not ok_w) or all(close(x, y, rtol=1e-7, atol=1e-8) for x, y in zip(a, b)) else "projection"
        explore("Whitening", nw, Dw, lambda: (np.asarray(Whitening().fit(Xw).weights), np.asarray(Whitening().fit(Xw).input_subtract)),
                lambda ch: (lambda wh: (np.asarray(wh.weights), np.asarray(wh.input_subtract)))(Whitening().fit(da.from_array(Xw, chunks=(ch[0], (Dw,))))), w_cmp)
        # the same on features with a common offset 1e5 times their spread (a time stamp, a temperature in Kelvin): both routes centre before
        # they square, so they agree far below the 1e-5 that a one-pass sum of squares loses at this offset
        Xo = Xw + 1e5 * float(np.std(Xw))
        for rows_o in (tuple([1] * nw), tuple(gen.random_composition(r, nw, 3))):
            wn_, wd_ = Whitening().fit(Xo), Whitening().fit(da.from_array(Xo, chunks=(rows_o, (Dw,))))
            cn_, cd_ = WCCN().fit(Xo, yw), WCCN().fit(da.from_array(Xo, chunks=(rows_o, (Dw,))), yw)
            chk.count(1, key=("Whitening/WCCN, large common offset", len(rows_o)))
            for nm_, a_, b_ in (("Whitening", wn_.weights, wd_.weights), ("WCCN", cn_.weights, cd_.weights)):
                if ok_w and not close(np.asarray(a_), np.asarray(b_), rtol=1e-7, atol=1e-8):
                    chk.fail("%s on a Dask array (row blocks %s) differs from the in-memory result for features with a common offset 1e5 times their spread (largest relative difference %.3g)"
                             % (nm_, rows_o, float(np.abs(np.asarray(a_) - np.asarray(b_)).max() / np.abs(np.asarray(a_)).max())),
                             {"X": hexlist(Xo), "y": [int(q) for q in yw], "row_chunks": list(rows_o), "trainer": nm_})
        explore("WCCN", nw, Dw, lambda: (np.asarray(WCCN().fit(Xw, yw).weights),),
                lambda ch: (np.asarray(WCCN().fit(da.from_array(Xw, chunks=(ch[0], (Dw,))), yw).weights),), w_cmp)
        if rd < 2:
            chk.sample({"round": rd, "kmeans": {"n": n, "K": K, "D": D, "cap": cap, "thr": thr}, "gmm": {"C": C, "D": Dg, "switches": list(sw), "cap": capg}})
        # correspondence cases: the chunked model iteration = the implementation on Dask chunks
        ch = gen.random_composition(r, len(Xg), 4)
        cfgc = dict(w=w, mu=mu, var=var, thr=None, sw=sw, eps=float(np.finfo(float).eps), cap=capg, cthr=None)
        gc = gt.make_case(cfgc, Xg, ch)
        if gc["well_conditioned"]:
            gterms.append(gc["term"])
        if kt.margin_ok(init, X):
            chk_ = gen.random_composition(r, len(X), 4)
            km, steps, _ = kt.run_kfit(init, X, chk_, cap=cap, cthr=None)
            kterms.append(kt.fit_term(init, X, chk_, cap, None, km, steps))
    bad, info = cq.run_cases("C04g", gt.IMPORTS, "fit_case", "fit_check", gterms, shard=60)
    chk.correspondence("GMMMachine.fit on Dask chunks ~ MF.fit on the same chunk list", len(gterms), bad, info)
    if kterms:
        bad, info = cq.run_cases("C04k", kt.IMPORTS, "kf_case", "kf_check", kterms, shard=60)
        chk.correspondence("KMeansMachine.fit on Dask chunks ~ KF.fit on the same chunk list", len(kterms), bad, info)
    chk.partial = ["OS-thread interleavings inside NumPy/BLAS kernels are not modelled: a task is one atomic step and tasks only share read-only inputs"]
    return chk.finish(
        rule="trainers k-means(+variances/weights), GMM ML, GMM MAP, ISV/JFA fit_using_array (classes of equal and unequal size), Whitening, WCCN; row chunkings {whole, single rows, uneven, random}"
             " (every composition for n<=6 in the thorough tier), feature-axis chunkings for k-means/GMM, task order shuffled by seed, shared vs cloudpickle-isolated "
             "execution; each compared with the in-memory fit (parameters, criterion/reported values, iteration count); distinct = (trainer,#row chunks,feature-chunked,isolated)",
        trusted=["custom Dask scheduler harness/dasksched.py (dask.local.get_async with one synchronous worker, ready-list shuffling, cloudpickle dumps/loads)"])
