"""C05  MAP adaptation interpolates between the prior model and the data by relevance."""
import copy
import itertools

import numpy as np

from .. import coqio as cq
from .. import gen
from .. import gmmtrain as gt
from ..impl import GMMMachine, GMMStats, make_gmm, hexlist, make_gmm

SWITCHES = list(itertools.product([True, False], repeat=3))
D2 = "D2-map-variance-unsquared-prior-mean"


def expected_step(prior, cur, X, sw, eps, relevance, alpha, squared=True):
    """One MAP iteration as the property states it, from the statistics of the current machine."""
    st = cur.acc_stats(X)
    n = np.asarray(st.n, dtype=float)
    a = n / (n + relevance) if relevance is not None else np.broadcast_to(np.asarray(alpha, dtype=float), n.shape).copy()
    um, uv, uw = sw
    w, mu, var = np.array(cur.weights), np.array(cur.means), np.array(cur.variances)
    pm, pv, pw = np.asarray(prior.means), np.asarray(prior.variances), np.asarray(prior.weights)
    ev = n >= eps
    if uw:
        w = a * (n / st.t) + (1 - a) * pw
        w = w / w.sum()
    if um:
        e1 = np.asarray(st.sum_px) / np.where(ev, n, 1.0)[:, None]
        mu = np.where(ev[:, None], a[:, None] * e1 + (1 - a[:, None]) * pm, pm)
    if uv:
        e2 = np.asarray(st.sum_pxx) / np.where(ev, n, 1.0)[:, None]
        pm2 = pv + (pm ** 2 if squared else pm)
        var = np.where(ev[:, None], a[:, None] * e2 + (1 - a[:, None]) * pm2 - mu ** 2, pm2 - mu ** 2)
        var = np.maximum(gt.thr_matrix(cur), var)
    return w, mu, var, n


def run(chk):
    chk.prove()
    r = gen.rng(chk.seed, "C05")
    n_cases = 48 if chk.tier == "quick" else 2000
    terms = []
    eps = float(np.finfo(float).eps)
    for i in range(n_cases):
        sw = SWITCHES[i % 8]
        w, mu, var, s, X = gt.gen_training(r)
        C, D = mu.shape
        # shift the prior away from the origin so that mean and squared mean differ
        mu = mu + s * r.choice([0.0, 1.5, -3.0])
        starve = (i % 5 == 0) and C >= 2
        if starve:        # one component far away from all data: receives no responsibility
            mu[-1] = mu[-1] + 1e4 * s
        relevance = r.choice([None, 1e-6, 0.5, 4.0, 1e3, 1e6])
        alpha = r.choice([0.0, 0.3, 0.5, 1.0])
        if i % 6 in (1, 4):
            relevance = None        # fixed-ratio adaptation in at least every third case: odd i without, even i (i % 6 == 4) with weight updating;
                                    # both are per-component ratio arrays (i % 3 == 1), whose blend does not sum to one before the renormalisation
        alpha_array = relevance is None and i % 3 == 1
        if alpha_array:
            # the fixed ratio given per component (a caller-owned array with unequal entries)
            alpha = np.array([r.choice([0.0, 0.1, 0.5, 0.9]) for _ in range(C)])
            if len(set(alpha.tolist())) == 1 and C >= 2:
                alpha[0] = 0.35
        K = r.choice([1, 1, 2, 3])
        thr = r.choice([None, 1e-4 * float(s.min()) ** 2])
        chunks = None if i % 3 else gen.random_composition(r, len(X), 3)
        eps_c = eps if i % 4 else r.choice([1e-3, 0.5])      # a raised mean_var_update_threshold in every fourth case
        cfg = dict(w=None, mu=None, var=None, thr=None, sw=sw, eps=eps_c, cap=K, cthr=None,
                   map=dict(relevance=relevance, alpha=alpha, prior=(w, mu, var, thr)))
        ctx = {"switches(means,vars,weights)": list(sw), "relevance": relevance, "alpha": alpha.tolist() if alpha_array else alpha, "iterations": K,
               "prior_w": hexlist(w), "prior_mu": hexlist(mu), "prior_var": hexlist(var), "shape": [C, D], "X": hexlist(X),
               "starved_component": starve}
        # ---- oracle: iterate the implementation one EM step at a time against the stated blend
        m, prior = gt.build_machine(dict(cfg, cap=1))
        p0 = copy.deepcopy(prior)
        for k in range(K):
            ew, emu, evar, n = expected_step(prior, m, X, sw, eps_c, relevance, alpha, squared=True)
            fw, fmu, fvar, _ = expected_step(prior, m, X, sw, eps_c, relevance, alpha, squared=False)
            m.fit(X)
            chk.count(1, key=("step", sw, relevance is None, starve, bool(np.any(n < eps))))
            sc = max(1.0, float(np.abs(X).max()))
            okw = np.allclose(m.weights, ew, rtol=1e-9, atol=1e-12)
            okm = np.allclose(m.means, emu, rtol=1e-9, atol=1e-9 * sc)
            okv = np.allclose(m.variances, evar, rtol=1e-8, atol=1e-9 * sc * sc)
            if not okw:
                chk.fail("MAP weights after iteration %d are not the renormalised blend" % (k + 1), dict(ctx, got=hexlist(m.weights), want=hexlist(ew)))
                break
            if abs(float(np.sum(m.weights)) - 1.0) > 1e-12 and sw[2]:
                chk.fail("MAP weights do not sum to one", dict(ctx, got=hexlist(m.weights)))
                break
            if not okm:
                chk.fail("MAP means after iteration %d are not a*E[x] + (1-a)*prior mean" % (k + 1), dict(ctx, got=hexlist(m.means), want=hexlist(emu)))
                break
            if not okv:
                if np.allclose(m.variances, fvar, rtol=1e-8, atol=1e-9 * sc * sc):
                    chk.fail("MAP variances use prior variance + prior mean (un-squared) instead of + prior mean^2",
                             dict(ctx, got=hexlist(m.variances), want=hexlist(evar)), sig=D2)
                else:
                    chk.fail("MAP variances after iteration %d are neither the stated blend nor the known D2 formula" % (k + 1),
                             dict(ctx, got=hexlist(m.variances), want=hexlist(evar)))
                break
            # no stale cache after MAP adaptation: the machine scores like a fresh one with the same visible parameters
            fresh = make_gmm(np.array(m.weights), np.array(m.means), np.array(m.variances), thr=0.0)
            if not np.allclose(np.asarray(m.log_likelihood(X)), np.asarray(fresh.log_likelihood(X)), rtol=1e-10, atol=1e-10):
                chk.fail("after MAP iteration %d the machine's likelihood is not that of its visible weights/means/variances (stale cache)" % (k + 1), ctx)
                break
        # a component that had evidence in a first batch and has none in a second one returns to the prior
        if i % 4 == 1 and C >= 2 and sw[0]:
            sep = np.zeros((C, D))
            sep[:, 0] = np.arange(C) * 200.0 * float(np.sqrt(var[:, 0].max()))
            pmu = np.asarray(mu) + sep
            b1 = np.vstack([pmu[c] + 0.3 * np.sqrt(var[c]) * gen.nprng(r).normal(size=(4, D)) for c in range(C)])
            b2 = pmu[0] + 0.3 * np.sqrt(var[0]) * gen.nprng(r).normal(size=(5, D))          # only component 0 gets evidence
            cfg2 = dict(cfg, cap=2, map=dict(relevance=relevance if relevance is not None else 4.0, alpha=alpha, prior=(w, pmu, var, thr)))
            m2, prior2 = gt.build_machine(cfg2)
            m2.fit(b1)
            moved = not np.allclose(m2.means[1:], prior2.means[1:])
            # which components really receive no evidence from the second batch, under the machine as it stands after the first one
            # (with variance adaptation the adapted variances decide, not the prior's)
            starved2 = np.asarray(m2.acc_stats(b2).n) < eps
            starved2[0] = False
            m2.max_fitting_steps = 1          # ONE step on the second batch: the counts read above are those of exactly this step
            m2.fit(b2)
            chk.count(1, key=("evidence-then-none", sw, bool(starved2.any())))
            if moved and starved2.any() and not np.allclose(np.asarray(m2.means)[starved2], np.asarray(prior2.means)[starved2], rtol=1e-12, atol=0):
                chk.fail("a component that receives no evidence (after having been adapted on an earlier batch) does not keep the prior's mean",
                         dict(ctx, batch1=hexlist(b1), batch2=hexlist(b2), prior_mu=hexlist(pmu)))
        # ---- the settings in force are the machine's CURRENT ones: a machine configured differently at construction (ML trainer, other
        #      relevance / ratio / switches / cap) and then re-configured through its attributes or set_params adapts exactly like one built that way
        # (only with the default count threshold: the constructor also takes mean_var_update_threshold as the default variance floor, so a machine
        #  built with a raised threshold and one that gets it later legitimately differ in their floors)
        if i % 3 == 2 and eps_c == eps:
            ref, _ = gt.build_machine(dict(cfg, cap=K))
            ref.fit(X)
            how = r.choice(["attributes", "set_params"])
            late = GMMMachine(n_gaussians=C, ubm=make_gmm(w, mu, var, thr=thr), trainer="ml", map_alpha=0.9, map_relevance_factor=7.0,
                              update_means=not sw[0], update_variances=not sw[1], update_weights=not sw[2],
                              mean_var_update_threshold=eps, max_fitting_steps=K + 3, convergence_threshold=0.5)
            final = dict(trainer="map", map_alpha=alpha, map_relevance_factor=relevance, update_means=sw[0], update_variances=sw[1],
                         update_weights=sw[2], max_fitting_steps=K, convergence_threshold=None, mean_var_update_threshold=eps_c)
            if how == "attributes":
                for k_, v_ in final.items():
                    setattr(late, k_, v_)
            else:
                late.set_params(**final)
            late.fit(X)
            chk.count(1, key=("reconfigured", how, sw))
            if not (np.allclose(late.means, ref.means, rtol=1e-12, atol=0) and np.allclose(late.variances, ref.variances, rtol=1e-12, atol=0)
                    and np.allclose(late.weights, ref.weights, rtol=1e-12, atol=0)):
                chk.fail("a machine re-configured for MAP adaptation after construction (via %s) adapts differently from one constructed with the same settings" % how,
                         dict(ctx, reconfigured_via=how, got_means=hexlist(late.means), want_means=hexlist(ref.means)))
        # ---- initialisation = a copy of the prior, also when asked for explicitly on a machine that has moved away from it
        if i % 4 == 3:
            mi, pri = gt.build_machine(dict(cfg, cap=1))
            mi.fit(X)
            mi.initialize_gaussians()
            chk.count(1, key=("re-initialise",))
            if not (np.array_equal(np.asarray(mi.means), np.asarray(pri.means)) and np.array_equal(np.asarray(mi.variances), np.asarray(pri.variances))
                    and np.array_equal(np.asarray(mi.weights), np.asarray(pri.weights))):
                chk.fail("initialize_gaussians() on an adapted MAP machine does not restore the prior's weights, means and variances", ctx)
            if np.shares_memory(np.asarray(mi.means), np.asarray(pri.means)):
                chk.fail("after initialize_gaussians() the MAP machine's means share memory with the prior's", ctx)
        # ---- hand-built statistics with hard (integer-typed) counts through the public m_step: the same adaptation as with the counts as floats
        if i % 5 == 2:
            from bob.learn.em import gmm as gmm_module
            g5 = gen.nprng(r)
            n_int = g5.integers(1, 9, size=C).astype(np.int64)
            def hand(nvals):
                st_ = GMMStats(C, D)
                st_.t = int(n_int.sum())
                st_.n = nvals
                st_.sum_px = n_int[:, None] * (np.asarray(mu) + 0.4 * np.sqrt(np.asarray(var)))
                st_.sum_pxx = n_int[:, None] * (np.asarray(var) * 1.3 + (np.asarray(mu) + 0.4 * np.sqrt(np.asarray(var))) ** 2)
                st_.log_likelihood = -1.0
                return st_
            ma_, _ = gt.build_machine(dict(cfg, cap=1, map=dict(relevance=None, alpha=0.3, prior=(w, mu, var, thr))))
            mb_, _ = gt.build_machine(dict(cfg, cap=1, map=dict(relevance=None, alpha=0.3, prior=(w, mu, var, thr))))
            gmm_module.m_step([hand(n_int)], ma_)
            gmm_module.m_step([hand(n_int.astype(float))], mb_)
            chk.count(1, key=("integer-counts",))
            if not (np.allclose(ma_.means, mb_.means, rtol=1e-12, atol=0) and np.allclose(ma_.weights, mb_.weights, rtol=1e-12, atol=0)):
                chk.fail("MAP adaptation (fixed ratio 0.3) from statistics whose counts are integer-typed differs from the same counts as floats (means %s vs %s)"
                         % (np.asarray(ma_.means).tolist(), np.asarray(mb_.means).tolist()), dict(ctx, counts=n_int.tolist()))
        # ---- soft statistics whose total frame count is fractional and below one (down-weighted frames): the data share of the weight blend is n/t
        if i % 5 == 3 and sw[2]:
            from bob.learn.em import gmm as gmm_module
            stf = prior.acc_stats(X[:3])
            kf_ = 0.2
            stf.n, stf.sum_px, stf.sum_pxx = np.asarray(stf.n) * kf_, np.asarray(stf.sum_px) * kf_, np.asarray(stf.sum_pxx) * kf_
            stf.t = 3 * kf_
            mfr, _ = gt.build_machine(dict(cfg, cap=1))
            gmm_module.m_step([stf], mfr)
            nfr = np.asarray(stf.n, dtype=float)
            afr = nfr / (nfr + relevance) if relevance is not None else np.broadcast_to(np.asarray(alpha, dtype=float), nfr.shape)
            wfr = afr * (nfr / float(stf.t)) + (1 - afr) * np.asarray(prior.weights)
            wfr = wfr / wfr.sum()
            chk.count(1, key=("fractional-frame-count",))
            if not np.allclose(np.asarray(mfr.weights), wfr, rtol=1e-10, atol=1e-14):
                chk.fail("MAP weights from statistics with a fractional total frame count (t = %.3g) are not the renormalised blend a n/t + (1-a) w_prior" % float(stf.t),
                         dict(ctx, t=float(stf.t), got=hexlist(mfr.weights), want=hexlist(wfr)))
        # ---- statistics accumulated once and used for several adaptations through the public M-step: not consumed, every use gives what a
        #      fresh copy of the statistics gives
        if i % 4 == 1:
            from bob.learn.em import gmm as gmm_module2
            st_once = prior.acc_stats(X)
            st_keep = copy.deepcopy(st_once)
            for rep_ in range(2):
                mu_, _ = gt.build_machine(dict(cfg, cap=1))
                mf_, _ = gt.build_machine(dict(cfg, cap=1))
                gmm_module2.m_step([st_once], mu_)
                gmm_module2.m_step([copy.deepcopy(st_keep)], mf_)
                chk.count(1, key=("statistics reused across M-steps", rep_))
                same_ = all(np.array_equal(np.asarray(getattr(mu_, a_)), np.asarray(getattr(mf_, a_))) for a_ in ("weights", "means", "variances"))
                kept_ = all(np.array_equal(np.asarray(getattr(st_once, a_)), np.asarray(getattr(st_keep, a_))) for a_ in ("n", "sum_px", "sum_pxx"))
                if not kept_:
                    chk.fail("the MAP M-step modifies the statistics object it is given (use %d)" % (rep_ + 1), dict(ctx, use=rep_ + 1))
                    break
                if not same_:
                    chk.fail("the MAP M-step on statistics that were already used once gives another model than on a fresh copy of them", dict(ctx, use=rep_ + 1))
                    break
        # prior untouched
        if not (np.array_equal(prior.means, p0.means) and np.array_equal(prior.variances, p0.variances) and np.array_equal(prior.weights, p0.weights)):
            chk.fail("the prior (UBM) was modified by MAP training", ctx)
        # ---- limits: huge relevance returns the prior; tiny relevance returns the ML M-step (means)
        if i % 6 == 0 and sw[0]:
            mb, pb = gt.build_machine(dict(cfg, cap=1, map=dict(relevance=1e14, alpha=alpha, prior=(w, mu, var, thr))))
            mb.fit(X)
            if not np.allclose(mb.means, pb.means, rtol=1e-9, atol=1e-9 * float(np.abs(X).max() + 1)):
                chk.fail("relevance 1e14 does not return the prior means", ctx)
            ms, ps = gt.build_machine(dict(cfg, cap=1, map=dict(relevance=1e-12, alpha=alpha, prior=(w, mu, var, thr))))
            st = copy.deepcopy(ms).acc_stats(X)      # the machine's own E-step (a raised count threshold also raises its default variance floors)
            ms.fit(X)
            n = np.asarray(st.n)
            ml = np.asarray(st.sum_px) / np.where(n >= eps, n, 1.0)[:, None]
            sel = (n > 1e-3) & (n >= float(cfg["eps"]))     # a component below the (possibly raised) count threshold keeps the prior mean by the stated rule
            chk.count(1, key=("limits",))
            if not np.allclose(np.asarray(ms.means)[sel], ml[sel], rtol=1e-6, atol=1e-8 * float(np.abs(X).max() + 1)):
                chk.fail("relevance 1e-12 does not return the ML mean estimate", dict(ctx, counts=hexlist(n), count_threshold=float(cfg["eps"]), got=hexlist(ms.means), ml=hexlist(ml)))
        # ---- correspondence case
        if not alpha_array:         # the model takes a scalar ratio; per-component ratios are covered by the step-by-step oracle above
            c = gt.make_case(cfg, X, chunks)
            if c["well_conditioned"]:
                terms.append(c["term"])
        if i < 2:
            chk.sample({"entry": "fit(trainer=map)", "switches": list(sw), "relevance": relevance, "alpha": alpha.tolist() if alpha_array else alpha, "iterations": K,
                        "N": len(X), "C": C, "D": D, "starved": starve})
    bad, info = cq.run_cases("C05", gt.IMPORTS, "fit_case", "fit_check", terms, shard=60)
    chk.correspondence("GMMMachine.fit(trainer='map') ~ MF.fit (faithful or repaired variance blend)", len(terms), bad, info)
    chk.partial = ["C05_means_only_monotone is proved under 'every component has evidence (n_c >= threshold)'; a component in the no-evidence "
                   "branch is reset to the prior mean, which can lower the penalised likelihood by O(threshold) - not covered by the theorem"]
    return chk.finish(
        rule="priors C<=3, D<=3 (shifted off the origin; every 5th with a starved component 1e4 sigma away), relevance None/1e-6..1e6, fixed alpha 0/0.3/0.5/1, "
             "all 8 switch settings, 1-3 iterations checked step by step against the stated blend; distinct = (switches, fixed-alpha?, starved?, no-evidence met?)",
        assumptions=["D2 recorded as a known finding: the unedited test suite pins the values produced by the un-squared prior mean"])
