"""C06  K-means training descends the true distortion and stops by its stated rule."""
import numpy as np

from .. import coqio as cq
from .. import gen
from .. import kmtrain as kt
from ..impl import hexlist
from .C03 import placed_threshold


def run(chk):
    chk.prove()
    r = gen.rng(chk.seed, "C06")
    n_cases = 40 if chk.tier == "quick" else 2000
    terms = []
    for i in range(n_cases):
        init, X = kt.gen_clusters(r)
        K, D = init.shape
        how = "array"
        if i % 5 == 1 and len(X) > K:
            how = r.choice(["random", "k-means||"])
            try:
                init = kt.initial_centroids(how, X, K, seed=r.randint(0, 1000))
            except Exception as e:  # initialiser of dask_ml failing is not this package's behaviour
                how = "array"
        if i % 6 == 2 and how == "array":
            # an explicit initial-centroid array of integer dtype is a legal input
            cand = np.round(init).astype(np.int64)
            if len({tuple(c) for c in cand.tolist()}) == len(cand) and kt.margin_ok(cand.astype(float), X):
                init, how = cand, "int-array"
        cap = r.choice([1, 2, 3, 6])
        chunks = None if i % 3 else gen.random_composition(r, len(X), 4)
        ctx = {"init": hexlist(init), "X": hexlist(X), "shape": [K, D], "N": len(X), "cap": cap,
               "chunks": list(chunks) if chunks else None, "init_method": how}
        # ---- step-by-step run of the implementation
        cents = [init]
        ok_margin = True
        for k in range(cap):
            ok_margin = ok_margin and kt.margin_ok(cents[-1], X)
            km1, _, _ = kt.run_kfit(cents[-1], X, None, cap=1)
            cents.append(np.array(km1.centroids_, dtype=float))
        if not ok_margin:
            continue
        J = [kt.distortion(c, X) for c in cents]
        chk.count(1, key=("traj", K, D, cap, how))
        for k in range(cap):
            lab = J[k][1]
            nonempty = all(np.any(lab == j) for j in range(K))
            # every centroid is the mean of the samples nearest to its predecessor
            for j in range(K):
                if np.any(lab == j):
                    want = X[lab == j].mean(axis=0)
                    if not np.allclose(cents[k + 1][j], want, rtol=1e-9, atol=1e-9 * (1 + np.abs(X).max())):
                        chk.fail("centroid %d after iteration %d is not the mean of the samples nearest to its predecessor" % (j, k + 1),
                                 dict(ctx, iteration=k + 1, got=hexlist(cents[k + 1][j]), want=hexlist(want)))
                elif not np.all(np.isfinite(cents[k + 1][j])):
                    chk.fail("empty cluster %d has a non-finite centroid after iteration %d" % (j, k + 1), dict(ctx, iteration=k + 1))
            if nonempty and not J[k + 1][0] <= J[k][0] * (1 + 1e-12) + 1e-300:
                chk.fail("iteration %d raises the mean squared distance %.12g -> %.12g" % (k + 1, J[k][0], J[k + 1][0]), dict(ctx, iteration=k + 1))
        # ---- fit with cap, no threshold: same centroids; reported criterion = distortion of the centroids entering the last iteration
        km, steps, cvs = kt.run_kfit(init, X, chunks, cap=cap, cthr=None)
        terms.append(kt.fit_term(init, X, chunks, cap, None, km, steps))
        if i < 2:
            chk.sample({"entry": "KMeansMachine.fit", "K": K, "D": D, "N": len(X), "cap": cap, "chunks": chunks, "init": how,
                        "criterion": float(km.average_min_distance), "steps": steps})
        if steps != cap:
            chk.fail("fit(max_iter=%d, no threshold) performed %d iterations" % (cap, steps), ctx)
        if not np.allclose(km.centroids_, cents[cap], rtol=1e-9, atol=1e-12):
            chk.fail("fit(max_iter=%d) differs from %d single iterations" % (cap, cap), ctx)
        want = J[cap - 1][0]
        got = float(km.average_min_distance)
        if not abs(got - want) <= 1e-9 * max(want, 1e-300) + 1e-300:
            chk.fail("reported criterion %.12g is not the mean squared distance %.12g of the centroids entering the last iteration" % (got, want),
                     dict(ctx, reported=got, distortion=want))
        # ---- stopping rule
        if cap >= 3:
            kmt, st8, cvs8 = kt.run_kfit(init, X, chunks, cap=8, cthr=None)
            pt = placed_threshold(cvs8)
            if pt:
                kstar, th = pt
                kms, steps_s, _ = kt.run_kfit(init, X, chunks, cap=8, cthr=th)
                if th >= 1e-10:          # as in C03: not when the deciding values are at the level of the rounding noise
                    terms.append(kt.fit_term(init, X, chunks, 8, th, kms, steps_s))
                kref, _, _ = kt.run_kfit(init, X, chunks, cap=kstar, cthr=None)
                chk.count(1, key=("stop", kstar, bool(chunks)))
                if steps_s != kstar:
                    chk.fail("threshold %.3g placed to stop at iteration %d (relative changes %s): stopped at %d" % (th, kstar, cvs8, steps_s),
                             dict(ctx, threshold=th, cvs=cvs8))
                elif not np.allclose(kms.centroids_, kref.centroids_, rtol=1e-12, atol=0):
                    chk.fail("centroids after stopping at iteration %d differ from the %d-iteration centroids" % (kstar, kstar), dict(ctx, threshold=th))
    # ---- exact ties: samples and centroids on an integer grid (all distances exact in binary64), one iteration; a tied sample belongs to the
    #      FIRST nearest centroid only, every centroid is the mean of its members, the distortion does not rise; and a cap of 0 iterations
    for i in range(12 if chk.tier == "quick" else 600):
        K, D = r.choice([2, 3]), r.choice([1, 2])
        N = r.choice([5, 8, 12])
        g = gen.nprng(r)
        X = g.integers(0, 5, size=(N, D)).astype(float)
        pts = sorted({tuple(p) for p in g.integers(0, 5, size=(4 * K, D)).tolist()})
        if len(pts) < K:
            continue
        init = np.array(pts[:K], dtype=float)
        g.shuffle(init)
        # make sure at least one sample is exactly equidistant from its two nearest centroids
        d0 = ((init[:, None, :] - X[None, :, :]) ** 2).sum(-1)
        srt = np.sort(d0, axis=0)
        has_tie = K >= 2 and bool(np.any(srt[0] == srt[1]))
        if not has_tie:
            X[0] = (init[0] + init[1]) / 2.0          # midpoints of grid points are exact as well
            d0 = ((init[:, None, :] - X[None, :, :]) ** 2).sum(-1)
        chunks = None if i % 2 else gen.random_composition(r, N, 3)
        ctx = {"init": hexlist(init), "X": hexlist(X), "shape": [K, D], "N": N, "chunks": list(chunks) if chunks else None, "grid": True}
        km, steps, _ = kt.run_kfit(init, X, chunks, cap=1, cthr=None)
        lab = np.argmin(d0, axis=0)                    # first nearest centroid
        chk.count(1, key=("ties", K, D, bool(chunks)))
        for j in range(K):
            want = X[lab == j].mean(axis=0) if np.any(lab == j) else init[j]
            if not np.allclose(np.asarray(km.centroids_)[j], want, rtol=1e-12, atol=1e-12):
                chk.fail("with a sample exactly equidistant from two centroids, centroid %d is not the mean of the samples whose first nearest centroid it is" % j,
                         dict(ctx, got=hexlist(km.centroids_), want_row=hexlist(want), labels=lab.tolist()))
                break
        j0 = float(d0.min(axis=0).mean())
        j1 = kt.distortion(np.asarray(km.centroids_, dtype=float), X)[0]
        if not abs(float(km.average_min_distance) - j0) <= 1e-12 * max(1.0, j0):
            chk.fail("reported criterion %.12g is not the mean squared distance %.12g to the entering centroids (grid data with ties)" % (float(km.average_min_distance), j0), ctx)
        if not j1 <= j0 * (1 + 1e-12) + 1e-300:
            chk.fail("one iteration on grid data with ties raises the mean squared distance %.12g -> %.12g" % (j0, j1), ctx)
        terms.append(kt.fit_term(init, X, chunks, 1, None, km, steps))
        # a cap of 0 iterations: initialisation only (a threshold is set so that a cap that is ignored still terminates)
        k0, s0, _ = kt.run_kfit(init, X, chunks, cap=0, cthr=1e-3)
        chk.count(1, key=("cap0", bool(chunks)))
        if s0 != 0 or not np.array_equal(np.asarray(k0.centroids_, dtype=float), init):
            chk.fail("fit(max_iter=0) performed %d iterations / moved the initial centroids" % s0, dict(ctx, cap=0, got=hexlist(k0.centroids_)))
    # ---- narrow-integer / single-precision training data: the run is that of the values (compared with the binary64 copy)
    for i in range(4 if chk.tier == "quick" else 40):
        init, X = kt.gen_clusters(r)
        lo_, hi_ = float(X.min()), float(X.max())
        kq = 200.0 / max(hi_ - lo_, 1e-300)
        for dt in (np.uint8, np.int16, np.float32):
            Xq = np.clip(np.rint((X - lo_) * kq + 20.0), 0, 255).astype(dt) if dt is not np.float32 else ((X - lo_) * kq + 20.0).astype(dt)
            initq = (np.asarray(init, dtype=float) - lo_) * kq + 20.0
            if not kt.margin_ok(initq, Xq.astype(float)):
                continue
            try:
                ka, sa, _ = kt.run_kfit(initq, Xq, None, cap=3)
                kb, sb, _ = kt.run_kfit(initq, Xq.astype(np.float64), None, cap=3)
            except Exception as e:
                chk.fail("k-means training on %s data raises %r" % (np.dtype(dt).name, e), {"dtype": np.dtype(dt).name, "X": hexlist(Xq.astype(float)), "init": hexlist(initq)})
                continue
            chk.count(1, key=("dtype", np.dtype(dt).name))
            rt = 1e-9 if dt is not np.float32 else 1e-4
            if not (sa == sb and np.allclose(ka.centroids_, kb.centroids_, rtol=rt, atol=rt) and np.allclose(ka.average_min_distance, kb.average_min_distance, rtol=rt, atol=rt)):
                chk.fail("k-means training on %s data differs from training on the binary64 copy of the same values" % np.dtype(dt).name,
                         {"dtype": np.dtype(dt).name, "X": hexlist(Xq.astype(float)), "init": hexlist(initq)})
    # ---- many rows in one call (more than 2**16): the reported criterion is still the mean squared distance of ALL samples
    for i in range(1 if chk.tier == "quick" else 3):
        g = gen.nprng(r)
        Nbig = 70001
        cb = np.array([[0.0, 0.0], [6.0, 1.0], [-3.0, 5.0]])
        Xb = cb[g.integers(0, 3, size=Nbig)] + g.normal(size=(Nbig, 2))
        initb = cb + 0.7
        d0 = ((initb[:, None, :] - Xb[None, :, :]) ** 2).sum(-1)
        want_crit = float(d0.min(axis=0).mean())
        for chb in (None, (Nbig,), (20000, 20000, 20000, 10001)):
            kmb, _, _ = kt.run_kfit(initb, Xb, chb, cap=1)
            chk.count(1, key=("many-rows", str(chb)))
            if not abs(float(kmb.average_min_distance) - want_crit) <= 1e-9 * want_crit:
                chk.fail("with %d samples (row blocks %s) the reported criterion %.9g is not the mean squared distance %.9g of all samples" % (Nbig, chb, float(kmb.average_min_distance), want_crit),
                         {"N": Nbig, "row_blocks": list(chb) if chb else None, "init": hexlist(initb), "data": "3 unit-variance clusters around [[0,0],[6,1],[-3,5]], numpy default_rng stream of this run"})
    # ---- a non-empty cluster whose members sum to exactly zero in one feature (an indicator / padding column, symmetric data): its centroid
    #      coordinate is the mean, 0, not the entering value
    for i in range(4 if chk.tier == "quick" else 40):
        g = gen.nprng(r)
        n0 = r.choice([4, 6])
        A = np.column_stack([g.normal(size=n0) - 4.0, np.zeros(n0), g.normal(size=n0)])
        half = g.normal(size=(n0 // 2, 3)) + np.array([5.0, 1.0, 0.0])
        half[:, 2] = np.abs(half[:, 2]) + 0.5
        B = np.vstack([half, half * np.array([1.0, 1.0, -1.0])])          # third feature sums to exactly 0
        Xz = np.vstack([A, B])
        initz = np.array([[-4.0, 0.4, 0.3], [5.0, 1.0, 0.7]])
        for chz in (None, (n0, len(B))):
            kz, _, _ = kt.run_kfit(initz, Xz, chz, cap=1)
            labz = np.argmin(((initz[:, None, :] - Xz[None, :, :]) ** 2).sum(-1), axis=0)
            wantz = np.array([Xz[labz == k].mean(axis=0) for k in range(2)])
            chk.count(1, key=("zero-sum-feature", bool(chz)))
            if not np.allclose(np.asarray(kz.centroids_), wantz, rtol=1e-12, atol=1e-12):
                chk.fail("a cluster whose members sum to exactly 0 in a feature does not get the mean (0) in that coordinate: %s instead of %s" % (np.asarray(kz.centroids_).tolist(), wantz.tolist()),
                         {"X": hexlist(Xz), "init": hexlist(initz), "chunks": list(chz) if chz else None})
    # ---- the stopping rule on data in very small units (criterion around 1e-10): the RELATIVE change decides, exactly as at unit scale
    for i in range(3 if chk.tier == "quick" else 40):
        initq, Xq = kt.gen_clusters(r, K=r.choice([2, 3]), D=2, N=r.choice([15, 21]))
        g = gen.nprng(r)
        initq = Xq[g.choice(len(Xq), size=len(initq), replace=False)]
        k1_, n1_, cv1_ = kt.run_kfit(initq, Xq, None, cap=40, cthr=1e-4)
        sq_ = 1e-5
        k2_, n2_, cv2_ = kt.run_kfit(initq * sq_, Xq * sq_, None, cap=40, cthr=1e-4)
        chk.count(1, key=("stopping rule in tiny units", n1_))
        # (the criteria differ by the factor 1e-10 up to rounding; a relative change within 1e-9 of the threshold could legitimately fall on either side)
        near_ = any(abs(c_ - 1e-4) < 1e-9 for c_ in cv1_)
        if not near_ and not (n1_ == n2_ and np.allclose(np.asarray(k2_.centroids_) / sq_, np.asarray(k1_.centroids_), rtol=1e-7, atol=1e-9)):
            chk.fail("k-means with threshold 1e-4 on data in units 1e5 times larger (values scaled by 1e-5) stops after %d iterations instead of %d" % (n2_, n1_),
                     {"X": hexlist(Xq), "init": hexlist(initq), "scale": sq_, "relative_changes_at_unit_scale": cv1_})
    # ---- the same k-means OBJECT trained again (more iterations allowed, same explicit start): the second training is a training like any
    #      other - nothing of the first one (its last criterion) enters the stopping rule
    for i in range(4 if chk.tier == "quick" else 60):
        from bob.learn.em import KMeansMachine
        from ..impl import LogCounter
        initr, Xr = kt.gen_clusters(r, K=r.choice([2, 3]), D=2, N=r.choice([15, 21]))
        g = gen.nprng(r)
        initr = Xr[g.choice(len(Xr), size=len(initr), replace=False)]          # a start that needs several iterations
        thr_r = r.choice([1e-5, 1e-3, 0.05])
        fresh, nfresh, _ = kt.run_kfit(initr, Xr, None, cap=50, cthr=thr_r)
        again = KMeansMachine(n_clusters=len(initr), init_method=np.array(initr), max_iter=r.choice([1, 2]), convergence_threshold=thr_r)
        again.fit(Xr)
        again.set_params(max_iter=50)
        with LogCounter("bob.learn.em.kmeans") as lc:
            again.fit(Xr)
        chk.count(1, key=("refit the same object", nfresh))
        if not (lc.count == nfresh and np.allclose(np.asarray(again.centroids_), np.asarray(fresh.centroids_), rtol=1e-12, atol=1e-12)
                and abs(float(again.average_min_distance) - float(fresh.average_min_distance)) <= 1e-12 * max(1.0, abs(float(fresh.average_min_distance)))):
            chk.fail("a k-means object trained a second time (max_iter raised to 50, same explicit start, threshold %g) performs %d iterations and a fresh object %d; centroids / criterion differ"
                     % (thr_r, lc.count, nfresh), {"X": hexlist(Xr), "init": hexlist(initr), "threshold": thr_r, "iterations": [lc.count, nfresh]})
    # ---- Dask training under an executor that identifies results by task key and keeps them between computations (dask's opportunistic
    #      cache): two trainings in one session, each equal to the same training run alone (task keys are not reused for other values)
    from .. import dasksched
    from ..impl import da
    for i in range(2 if chk.tier == "quick" else 30):
        sess = {}
        outs = []
        for rep in range(2):
            initc, Xc = kt.gen_clusters(r, K=2, D=2, N=14)
            g = gen.nprng(r)
            initc = Xc[g.choice(len(Xc), size=2, replace=False)]
            alone, nalone, _ = kt.run_kfit(initc, Xc, (6, 8), cap=6, cthr=1e-4)
            from ..impl import KMeansMachine as _KM
            kmc = _KM(n_clusters=2, init_method=np.array(initc), max_iter=6, convergence_threshold=1e-4)
            dasksched.run_under(3 + i, False, lambda: kmc.fit(da.from_array(Xc, chunks=((6, 8), (2,)))), cache=sess)
            chk.count(1, key=("key-caching executor", rep))
            if not (np.allclose(np.asarray(kmc.centroids_), np.asarray(alone.centroids_), rtol=1e-12, atol=1e-12)
                    and abs(float(kmc.average_min_distance) - float(alone.average_min_distance)) <= 1e-12 * max(1.0, abs(float(alone.average_min_distance)))):
                chk.fail("k-means training on a Dask array under an executor that keeps results by task key (training %d of the session) differs from the same training alone: criterion %.9g vs %.9g"
                         % (rep + 1, float(kmc.average_min_distance), float(alone.average_min_distance)),
                         {"X": hexlist(Xc), "init": hexlist(initc), "chunks": [6, 8], "training_in_session": rep + 1})
    # ---- boundary cases of the stopping rule and of the criterion
    for i in range(6 if chk.tier == "quick" else 60):
        # (a) no more distinct points than clusters, every cluster non-empty: the distortion reaches exactly 0; training must still end by the cap
        #     (0/0 in the relative change is not "at or below the threshold") and return the distinct points
        K, D = r.choice([2, 3]), r.choice([1, 2])
        g = gen.nprng(r)
        pts = g.normal(size=(K, D)) * 5
        X0 = np.repeat(pts, r.choice([2, 3]), axis=0)
        g.shuffle(X0)
        init0 = pts + 0.01 * g.normal(size=(K, D))
        near0 = np.argmin(((init0[:, None, :] - pts[None, :, :]) ** 2).sum(-1), axis=0)
        if not np.array_equal(near0, np.arange(K)):
            continue            # two of the drawn points lie closer together than the perturbation: a cluster would start empty (not this scenario)
        for dask_in in (False, True):
            ch0 = gen.random_composition(r, len(X0), 3) if dask_in else None
            try:
                km0, st0, _ = kt.run_kfit(init0, X0, ch0, cap=4, cthr=1e-3)
            except Exception as e:
                chk.fail("k-means on data with as many distinct points as clusters (distortion exactly 0) raises %r" % (e,),
                         {"init": hexlist(init0), "X": hexlist(X0), "shape": [K, D], "chunks": list(ch0) if ch0 else None})
                continue
            chk.count(1, key=("zero-distortion", dask_in))
            got0 = np.asarray(km0.centroids_, dtype=float)
            if not np.allclose(got0[np.lexsort(got0.T)], pts[np.lexsort(pts.T)], rtol=1e-12, atol=1e-12):
                chk.fail("k-means on data with as many distinct points as clusters does not return those points", {"init": hexlist(init0), "X": hexlist(X0), "shape": [K, D]})
        # (b) "at or below": a threshold EQUAL to the relative change observed at iteration k stops there; threshold 0 stops at the fixed point
        init, X = kt.gen_clusters(r)
        if not kt.margin_ok(init, X):
            continue
        _, _, cvs = kt.run_kfit(init, X, None, cap=8, cthr=None)
        for kk, cv in enumerate(cvs):
            if cv > 0 and all(c > cv for c in cvs[:kk]):
                kme, ste, _ = kt.run_kfit(init, X, None, cap=8, cthr=float(cv))
                chk.count(1, key=("threshold-equal", kk + 2))
                if ste != kk + 2:
                    chk.fail("a threshold equal to the relative change %r observed at iteration %d does not stop training there (stopped at %d): the rule is 'at or below'"
                             % (cv, kk + 2, ste), {"init": hexlist(init), "X": hexlist(X), "threshold": float(cv), "cvs": cvs})
                break
        if any(c == 0 for c in cvs):
            kfix = cvs.index(0.0) + 2
            kmz, stz, _ = kt.run_kfit(init, X, None, cap=12, cthr=0.0)
            chk.count(1, key=("threshold-zero",))
            if stz != kfix:
                chk.fail("threshold 0: training should stop at iteration %d, where the criterion repeats exactly, but stopped at %d" % (kfix, stz),
                         {"init": hexlist(init), "X": hexlist(X), "cvs": cvs})
    bad, info = cq.run_cases("C06", kt.IMPORTS, "kf_case", "kf_check", terms, shard=100)
    chk.correspondence("KMeansMachine.fit (array / seeded random / k-means|| init read back; NumPy and Dask chunks) ~ KF.fit", len(terms), bad, info)
    return chk.finish(
        rule="clustered data K<=4, D<=3, N in 6..30, separations 1/4/10, explicit and seeded string initialisers (k-means++ excluded: fails inside "
             "dask_ml in this environment), caps 0/1/2/3/6, NumPy or random Dask row chunks, near-ties excluded by margin but EXACT ties on integer-grid data included (one iteration); distinct = (traj,K,D,cap,init) | (stop,k*,chunked)")
