"""C07  ISV and JFA enrolment climbs to the joint posterior mode of the latent factors."""
import copy

import numpy as np

from .. import coqio as cq
from .. import fa
from .. import gen
from ..impl import da, hexlist


def enroll_with_x(m, kind, stats, iters):
    """Drive the public building blocks in the same sequence as enroll, to observe the channel factors too."""
    y_lab = list(np.zeros(len(stats), dtype=np.int32))
    n_acc = m._sum_n_statistics(stats, y=y_lab, n_classes=1)
    f_acc = m._sum_f_statistics(stats, y=y_lab, n_classes=1)
    UProd = m._compute_uprod()
    lx, ly, lz = m.initialize_XYZ(n_samples_per_class=[len(stats)])
    if kind == "jfa":
        VProd = m._compute_vprod()
    else:
        ly = None
    for _ in range(iters):
        if kind == "jfa":
            ly = m.update_y(X=stats, y=y_lab, n_classes=1, VProd=VProd, latent_x=lx, latent_y=ly, latent_z=lz, n_acc=n_acc, f_acc=f_acc)
        lx = m.compute_latent_x(X=stats, y=y_lab, n_classes=1, UProd=UProd, latent_y=ly, latent_z=lz)
        lz = m.update_z(X=stats, y=y_lab, latent_x=lx, latent_y=ly, latent_z=lz, n_acc=n_acc, f_acc=f_acc)
    xs = [np.array(lx[0][:, h]) for h in range(len(stats))]
    return (np.array(ly[0]) if kind == "jfa" else np.zeros(0)), xs, np.array(lz[0])


def run(chk):
    chk.prove()
    r = gen.rng(chk.seed, "C07")
    n_cases = 40 if chk.tier == "quick" else 300
    terms = []
    for i in range(n_cases):
        kind = "isv" if i % 2 else "jfa"
        ubm, s = fa.gen_ubm(r)
        C, D = ubm.means.shape
        rU, rV = r.choice([1, 2]), r.choice([1, 2])
        dscale = r.choice([1e-3, 0.3, 1.0, 2.0])        # the test suite only sees D ~ 1e-10
        m = fa.make_machine(kind, ubm, rU, rV, r=r, dscale=dscale)
        stats = fa.gen_stats(r, ubm, r.choice([1, 2, 4]), zero=True)
        K = r.choice([1, 2, 3, 6])
        ctx = dict(fa.dump_machine(m, kind), kind=kind, stats=fa.dump_stats(stats), iterations=K, D_scale=dscale)
        # ---- correspondence: enroll for K iterations
        m.enroll_iterations = K
        if kind == "isv":
            z = np.asarray(m.enroll(stats))[0]
            y = np.zeros(0)
        else:
            y, z = m.enroll(stats)
            y, z = np.asarray(y), np.asarray(z)
        # the same statistics held in lazy Dask arrays (as acc_stats of a Dask array returns them), and a second enrolment on the same machine
        if i % 4 == 1:
            dstats = []
            for q_ in stats:
                dq_ = copy.copy(q_)
                dq_.n, dq_.sum_px, dq_.sum_pxx = da.from_array(np.asarray(q_.n)), da.from_array(np.asarray(q_.sum_px)), da.from_array(np.asarray(q_.sum_pxx))
                dstats.append(dq_)
            try:
                ed = m.enroll(dstats)
                zd = np.asarray(ed[0] if kind == "isv" else ed[1], dtype=float).ravel()
                chk.count(1, key=("dask-backed-stats", kind))
                if not np.allclose(zd, np.asarray(z).ravel(), rtol=1e-9, atol=1e-12):
                    chk.fail("%s enrolment from statistics held in Dask arrays differs from the same statistics in NumPy arrays" % kind, ctx)
            except Exception as e:
                chk.fail("%s enrolment from statistics held in Dask arrays raises %r" % (kind, e), ctx)
        if i % 10 == 3:
            # a long recording (more than 10 000 frames) through the array entry point: ONE session, i.e. enroll([acc_stats(X)])
            gL = gen.nprng(r)
            XL = np.asarray(ubm.means)[gL.integers(0, C, size=12001)] + gL.normal(size=(12001, D)) * np.sqrt(np.asarray(ubm.variances).mean()) + np.linspace(0.0, 1.0, 12001)[:, None]
            m.enroll_iterations = 2
            ea_, es_ = m.enroll_using_array(XL), m.enroll([ubm.acc_stats(XL)])
            chk.count(1, key=("enroll_using_array, 12001 frames", kind))
            if not all(np.allclose(np.asarray(a_, dtype=float), np.asarray(b_, dtype=float), rtol=1e-9, atol=1e-12) for a_, b_ in zip(ea_, es_)):
                chk.fail("%s: enroll_using_array on a recording of 12001 frames differs from enroll on the UBM statistics of the same recording (one session)" % kind,
                         dict(ctx, frames=12001))
            m.enroll_iterations = K
        if i % 5 == 4:
            # the same problem with the features in units 1e7 times larger (UBM variances of order 1e-14): the factors are the same
            # (x and y exactly, z up to the signs of D, which are kept) - nothing absolute is added to the variances anywhere
            sc_ = 1e-7
            import copy as _cp
            ubm_s = _cp.deepcopy(ubm)
            ubm_s.variance_thresholds = 0.0
            ubm_s.means = np.asarray(ubm.means) * sc_
            ubm_s.variances = np.asarray(ubm.variances) * sc_ * sc_
            ms_ = fa.make_machine(kind, ubm_s, rU, rV, U=np.asarray(m.U) * sc_, V=(np.asarray(m.V) * sc_) if kind == "jfa" else None, Dv=np.asarray(m.D) * sc_)
            ms_.enroll_iterations = K
            st_s = []
            for q_ in stats:
                qs_ = _cp.copy(q_)
                qs_.n, qs_.sum_px, qs_.sum_pxx = np.array(q_.n, dtype=float), np.asarray(q_.sum_px, dtype=float) * sc_, np.asarray(q_.sum_pxx, dtype=float) * sc_ * sc_
                st_s.append(qs_)
            m.enroll_iterations = K
            f1_, f2_ = m.enroll(stats), ms_.enroll(st_s)
            chk.count(1, key=("features in tiny units", kind))
            if not all(np.allclose(np.asarray(a_, dtype=float), np.asarray(b_, dtype=float), rtol=1e-6, atol=1e-9) for a_, b_ in zip(f1_, f2_)):
                chk.fail("%s enrolment of the same problem with the features in units 1e7 times larger (UBM variances around %.1e) gives other factors"
                         % (kind, float(np.median(np.asarray(ubm_s.variances)))), dict(ctx, feature_scale=sc_))
        if i % 5 == 2:
            # enrol, train the SAME machine object further, enrol again: the second enrolment is that of a fresh machine holding the trained U, V, D
            mt_ = copy.deepcopy(m)
            mt_.em_iterations = 1
            tr_ = [fa.gen_stats(r, ubm, 2) for _ in range(2)]
            mt_.fit([q_ for cl_ in tr_ for q_ in cl_], np.array([0, 0, 1, 1]))
            mf_ = fa.make_machine(kind, ubm, rU, rV, U=np.array(mt_.U), V=np.array(mt_.V) if kind == "jfa" else None, Dv=np.array(mt_.D))
            mf_.enroll_iterations = K
            after_, fresh_ = mt_.enroll(stats), mf_.enroll(stats)
            chk.count(1, key=("enrol, train, enrol again", kind))
            if not all(np.allclose(np.asarray(a_, dtype=float), np.asarray(b_, dtype=float), rtol=1e-10, atol=1e-12) for a_, b_ in zip(after_, fresh_)):
                chk.fail("%s: enrolment after the machine was trained further (it had enrolled a client before) differs from the enrolment by a fresh machine with the same U, V, D "
                         "(something computed for the first enrolment survives the training)" % kind, dict(ctx, history="enroll, fit, enroll"))
        if i % 4 == 3:
            # the result does not depend on the logging level (diagnostics are read-only)
            import logging
            lg_ = logging.getLogger("bob.learn.em")
            old_level = lg_.level
            lg_.setLevel(logging.DEBUG)
            try:
                dbg = m.enroll(stats)
            finally:
                lg_.setLevel(old_level)
            zdbg = np.asarray(dbg[0] if kind == "isv" else dbg[1], dtype=float).ravel()
            chk.count(1, key=("debug-logging", kind))
            if not np.array_equal(zdbg, np.asarray(z).ravel()):
                chk.fail("%s enrolment gives other factors when the package logger is at DEBUG level" % kind, ctx)
        if i % 4 == 2:
            again = m.enroll(stats)          # same machine, same sessions: an enrolment does not depend on the previous one
            za = np.asarray(again[0] if kind == "isv" else again[1], dtype=float).ravel()
            chk.count(1, key=("second-enrolment", kind))
            if not np.array_equal(za, np.asarray(z).ravel()):
                chk.fail("a second %s enrolment of the same statistics on the same machine gives other factors than the first" % kind, ctx)
            if np.shares_memory(np.asarray(again[0] if kind == "isv" else again[1]), np.asarray(z)) :
                chk.fail("two %s enrolments on the same machine return the same memory" % kind, ctx)
        sc = max(1.0, float(np.abs(z).max()))
        terms.append("{| en_u := %s; en_f := %s; en_rU := %s; en_rV := %s; en_D := %s; en_iters := %s; en_x := %s; en_rtol := %s; en_atol := %s; en_y := %s; en_z := %s |}" % (
            fa.ubm_term(ubm), fa.fa_term(m, kind), cq.nat(rU), cq.nat(0 if kind == "isv" else rV), cq.nat(D), cq.nat(K), fa.gstats_term(stats),
            cq.fl(2.0 ** -24), cq.fl(1e-9 * sc), cq.vec(y), cq.vec(z)))
        chk.count(1, key=(kind, C, D, rU, rV if kind == "jfa" else 0, len(stats), dscale))
        if i < 2:
            chk.sample(dict(kind=kind, C=C, D=D, rU=rU, rV=rV, sessions=len(stats), iterations=K, D_scale=dscale, z=hexlist(z)))
        # ---- oracle: joint posterior never decreases with one more iteration; iterates approach the mode
        my, mxs, mz = fa.joint_mode(m, kind, stats)
        best = fa.joint_logpost(m, kind, stats, my, mxs, mz)
        prev_lp, prev_dist = None, None
        traj = []
        for k in range(1, 9):
            yk, xk, zk = enroll_with_x(m, kind, stats, k)
            lp = fa.joint_logpost(m, kind, stats, yk, xk, zk)
            dist = float(np.linalg.norm(np.concatenate([yk - my] + [a - b for a, b in zip(xk, mxs)] + [zk - mz])))
            traj.append((lp, dist))
            tol = 1e-9 * max(1.0, abs(best))
            if lp > best + tol:
                chk.fail("joint posterior %.12g exceeds the value at the mode %.12g (reference error?)" % (lp, best), ctx)
            if prev_lp is not None and lp < prev_lp - tol:
                chk.fail("%s enrolment: joint posterior decreases from %.12g to %.12g when iteration %d is allowed" % (kind, prev_lp, lp, k),
                         dict(ctx, iteration=k, trajectory=traj))
                break
            prev_lp = lp
        if k == 8:
            # public enroll agrees with the building-block sequence
            yk, xk, zk = enroll_with_x(m, kind, stats, K)
            if not (np.allclose(zk, z, rtol=1e-10, atol=1e-12) and (kind == "isv" or np.allclose(yk, y, rtol=1e-10, atol=1e-12))):
                chk.fail("enroll() differs from the public update_y / compute_latent_x / update_z sequence", ctx)
            # convergence towards the unique mode
            m.enroll_iterations = 400
            if kind == "isv":
                zL = np.asarray(m.enroll(stats))[0]
                yL = np.zeros(0)
            else:
                yL, zL = m.enroll(stats)
            dL = float(np.linalg.norm(np.concatenate([np.asarray(yL) - my, np.asarray(zL) - mz])))
            d1 = float(np.linalg.norm(np.concatenate([yk - my, zk - mz])))
            chk.count(1, key=("converge", kind))
            # twice as many iterations: while the mode has not been reached (to rounding level) the loop keeps moving towards it - the
            # requested number of iterations is performed (convergence is a theorem: FAEnrollConv.v)
            m.enroll_iterations = 800
            z800 = np.asarray(m.enroll(stats)[0] if kind == "isv" else m.enroll(stats)[1], dtype=float).ravel()
            if dL > 1e-8 * (1 + float(np.linalg.norm(mz))) and np.array_equal(z800, np.asarray(zL, dtype=float).ravel()):
                chk.fail("%s enrolment with 800 iterations returns exactly the factors of 400 iterations although they are %.3g away from the joint posterior mode (the requested iterations are not performed)"
                         % (kind, dL), dict(ctx, iterations=[400, 800], distance_to_mode=dL))
            if not (dL <= 1e-6 * (1 + np.linalg.norm(mz)) or dL <= 0.5 * d1):
                chk.fail("%s enrolment does not approach the joint posterior mode: distance %.3g after 400 iterations (%.3g after %d)" % (kind, dL, d1, K), ctx)
    bad, info = cq.run_cases("C07", fa.IMPORTS, "en_case", "en_check", terms, shard=100)
    chk.correspondence("ISVMachine.enroll / JFAMachine.enroll ~ FF.isv_enroll / FF.jfa_enroll (Gauss-Jordan inverse)", len(terms), bad, info)
    chk.partial = ["enroll_converges_partial: convergence of the iterates to the mode is validated numerically (400 iterations), not proved"]
    return chk.finish(
        rule="UBMs C,D<=3, ranks 1-2, D of order 1e-3/0.3/1/2, 1/2/4 sessions with fractional counts, 1..6 iterations; joint posterior evaluated "
             "independently (dense solve for the mode); distinct = (kind,C,D,rU,rV,#sessions,D scale)")
