"""C08  Linear scoring is the exact first-order log-likelihood ratio around the UBM."""
import copy
import math
import os
import tempfile

import numpy as np

from .. import coqio as cq
from .. import gen
from ..impl import GMMMachine, GMMStats, em, hexlist, make_gmm

IMPORTS = "Model.LinScore Corr.CorrBase Corr.CorrLinScore"
linear_scoring = em.linear_scoring


def mkstats(C, D, t, n, px):
    s = GMMStats(C, D)
    s.t, s.n, s.sum_px = t, np.array(n, dtype=float), np.array(px, dtype=float)
    return s


def ref_score(model, umu, uvar, st, off, norm):
    tot = []
    for c in range(umu.shape[0]):
        for d in range(umu.shape[1]):
            a = (model[c, d] - umu[c, d]) / uvar[c, d]
            b = st.sum_px[c, d] - st.n[c] * (umu[c, d] + off[c, d])
            if norm:
                b = 0.0 if abs(st.t) <= np.finfo(float).eps else b / st.t
            tot.append(a * b)
    return math.fsum(tot)


def run(chk):
    chk.prove()
    r = gen.rng(chk.seed, "C08")
    n_cases = 80 if chk.tier == "quick" else 4000
    terms = []
    for i in range(n_cases):
        C, D = r.choice([1, 2, 3]), r.choice([1, 2, 3])
        w, mu, var, s = gen.gen_gmm(r, C, D, r.choice(["unit", "mixed"]))
        ubm = make_gmm(w, mu, var)
        g = gen.nprng(r)
        nm = r.choice([1, 1, 2, 3])
        models = np.array(ubm.means)[None] + g.normal(size=(nm, C, D)) * s
        nt = r.choice([1, 1, 2, 3])
        stats = []
        for t in range(nt):
            if r.random() < 0.15:
                stats.append(mkstats(C, D, 0, np.zeros(C), np.zeros((C, D))))       # zero-frame statistics
            else:
                X = gen.sample_from(r, w, mu + s * 0.5, var, r.choice([1, 3, 8]))
                stats.append(ubm.acc_stats(X))
        offkind = r.choice(["scalar", "cd", "tcd"])
        if offkind == "scalar":
            off_arg, off_term = 0, "(LF.OffScalar 0)"
            offs = [np.zeros((C, D))] * nt
        elif offkind == "cd":
            o = g.normal(size=(C, D)) * s * 0.3
            off_arg, off_term, offs = o, "(LF.OffCD %s)" % cq.mat(o), [o] * nt
        else:
            o = g.normal(size=(nt, C, D)) * s * 0.3
            off_arg, off_term, offs = o, "(LF.OffTCD %s)" % cq.ten3(o), list(o)
        norm = r.random() < 0.5
        mkind = r.choice(["array3", "machines", "array2"]) if nm == 1 else r.choice(["array3", "machines"])
        if mkind == "machines":
            marg = [make_gmm(w, mm, var) for mm in models]
        elif mkind == "array2":
            marg = models[0]
        else:
            marg = models
        skind = "single" if (nt == 1 and r.random() < 0.5 and offkind != "tcd") else "list"
        sarg = stats[0] if skind == "single" else stats
        ctx = {"C": C, "D": D, "models": hexlist(models), "ubm_means": hexlist(ubm.means), "ubm_vars": hexlist(ubm.variances),
               "n": [hexlist(x.n) for x in stats], "sum_px": [hexlist(x.sum_px) for x in stats], "t": [int(x.t) for x in stats],
               "offset_kind": offkind, "offsets": [hexlist(o_) for o_ in offs], "norm": norm, "models_as": mkind, "stats_as": skind}
        got = np.asarray(linear_scoring(marg, ubm, sarg, off_arg, norm))
        chk.count(1, key=(mkind, skind, offkind, norm, any(x.t == 0 for x in stats)))
        if i < 2:
            chk.sample(dict(ctx, scores=hexlist(got)))
        sc = float(np.abs(got).max()) if got.size else 1.0
        terms.append("{| ls_models := %s; ls_umu := %s; ls_uvar := %s; ls_stats := [%s]; ls_off := %s; ls_norm := %s; ls_rtol := %s; ls_atol := %s; ls_out := %s |}" % (
            cq.ten3(models), cq.mat(ubm.means), cq.mat(ubm.variances),
            "; ".join("mkts %s %s %s" % (cq.vec(x.n), cq.mat(x.sum_px), cq.fl(float(x.t))) for x in stats),
            off_term, cq.boolean(norm), cq.fl(2.0 ** -30), cq.fl(1e-9 * max(1.0, sc)), cq.mat(got)))
        # ---- oracle
        if got.shape != (nm, nt):
            chk.fail("scores have shape %s, expected one row per model and one column per test item %s" % (got.shape, (nm, nt)), ctx)
            continue
        umu, uvar = np.asarray(ubm.means), np.asarray(ubm.variances)
        want = np.array([[ref_score(models[a], umu, uvar, stats[b], offs[b], norm) for b in range(nt)] for a in range(nm)])
        tol = 1e-9 * max(1.0, float(np.abs(want).max()))
        if not np.allclose(got, want, rtol=1e-9, atol=tol):
            chk.fail("score differs from sum_c (m_c-u_c)' diag(var_c)^-1 (F_c - N_c (u_c + o_c)) [/T]", dict(ctx, got=hexlist(got), want=hexlist(want)))
        # zero for the UBM itself
        z = np.asarray(linear_scoring(np.array(ubm.means), ubm, sarg, off_arg, norm))
        if not np.all(z == 0):
            chk.fail("the UBM scored against itself is not zero", dict(ctx, got=hexlist(z)))
        # linear in the model offset
        lam = r.choice([-2.0, 0.5, 3.0])
        m2 = umu[None] + lam * (models - umu[None])
        g2 = np.asarray(linear_scoring(m2, ubm, sarg, off_arg, norm))
        if not np.allclose(g2, lam * got, rtol=1e-8, atol=10 * tol):
            chk.fail("score is not linear in the model offset (factor %g)" % lam, ctx)
        # ... down to models that differ from the UBM by a small fraction of the size of its means (no "close enough to be un-adapted" shortcut);
        # the reference is the closed formula on exactly the model that is scored
        lam_s = 1e-4
        m3 = umu[None] + lam_s * (models - umu[None])
        g3 = np.asarray(linear_scoring(m3, ubm, sarg, off_arg, norm))
        want3 = np.array([[ref_score(m3[a], umu, uvar, stats[b], offs[b], norm) for b in range(nt)] for a in range(nm)])
        if not np.allclose(g3, want3, rtol=1e-7, atol=1e-9 * max(1e-300, float(np.abs(want3).max()))):
            chk.fail("models differing from the UBM by 1e-4 of the offsets (tiny relative to the means) do not get the closed-formula score", dict(ctx, got=hexlist(g3), want=hexlist(want3)))
        # test statistics stored in another numeric type (hard integer counts and sums; single precision): the score is that of their values
        if i % 4 == 1:
            for dt in (np.int64, np.float32):
                st_t = []
                for q_ in stats:
                    c_ = copy.deepcopy(q_)
                    if dt is np.int64:
                        c_.n, c_.sum_px = np.rint(np.asarray(q_.n) * 4).astype(dt), np.rint(np.asarray(q_.sum_px) * 8).astype(dt)
                    else:
                        c_.n, c_.sum_px = np.asarray(q_.n).astype(dt), np.asarray(q_.sum_px).astype(dt)
                    st_t.append(c_)
                st_64 = []
                for c_ in st_t:
                    e_ = copy.deepcopy(c_)
                    e_.n, e_.sum_px = np.asarray(c_.n, dtype=np.float64), np.asarray(c_.sum_px, dtype=np.float64)
                    st_64.append(e_)
                try:
                    gt_ = np.asarray(linear_scoring(models, ubm, st_t if skind != "single" else st_t[0], off_arg, norm))
                    g64 = np.asarray(linear_scoring(models, ubm, st_64 if skind != "single" else st_64[0], off_arg, norm))
                    chk.count(1, key=("stats-dtype", np.dtype(dt).name))
                    if not np.allclose(gt_, g64, rtol=1e-12, atol=0):
                        chk.fail("linear scores of %s statistics differ from those of the same values in binary64" % np.dtype(dt).name, dict(ctx, dtype=np.dtype(dt).name))
                except Exception as e:
                    chk.fail("linear_scoring on %s statistics raises %r" % (np.dtype(dt).name, e), dict(ctx, dtype=np.dtype(dt).name))
        # additive over test statistics before normalisation (shared offset)
        if nt >= 2 and offkind != "tcd":
            pooled = stats[0] + stats[1]
            gp = np.asarray(linear_scoring(marg, ubm, pooled, off_arg, False))[:, 0]
            gs = np.asarray(linear_scoring(marg, ubm, [stats[0], stats[1]], off_arg, False))
            if not np.allclose(gp, gs[:, 0] + gs[:, 1], rtol=1e-9, atol=10 * tol):
                chk.fail("un-normalised scores are not additive over test statistics", ctx)
        # machines vs arrays
        ga = np.asarray(linear_scoring(models, ubm, sarg, off_arg, norm))
        gm = np.asarray(linear_scoring([make_gmm(w, mm, var) for mm in models], ubm, sarg, off_arg, norm))
        if not (np.array_equal(ga, gm)):
            chk.fail("models given as machines and as mean arrays score differently", ctx)
        # a MAP-adapted machine passed as the UBM stands for its prior
        if i % 4 == 0:
            mapm = GMMMachine(n_gaussians=C, trainer="map", ubm=ubm)
            mapm.means = np.array(models[0])          # adapted parameters differ from the prior's
            gmap = np.asarray(linear_scoring(models, mapm, sarg, off_arg, norm))
            if not np.array_equal(gmap, ga):
                chk.fail("passing a MAP-adapted machine as the UBM does not give the scores of its prior", ctx)
            # a MAP machine that went through a file stands for its prior just the same
            fd, pth = tempfile.mkstemp(suffix=".h5", prefix="c08_")
            os.close(fd)
            try:
                mapm.save(pth)
                back = GMMMachine.from_hdf5(pth, ubm=ubm)
            finally:
                os.remove(pth)
            gback = np.asarray(linear_scoring(models, back, sarg, off_arg, norm))
            if not np.array_equal(gback, ga):
                chk.fail("a MAP-adapted machine saved and read back (from_hdf5 with its prior) no longer gives the scores of its prior when passed as the UBM", ctx)
            # an ML machine is its own reference even when it was constructed with a `ubm` argument (warm start from another model)
            seed_m = make_gmm(w, umu + 3.0 * np.sqrt(uvar), uvar * 2.0)
            warm = GMMMachine(n_gaussians=C, trainer="ml", ubm=seed_m)
            warm.weights, warm.means = np.array(ubm.weights), np.array(ubm.means)
            warm.variance_thresholds = np.array(ubm.variance_thresholds)
            warm.variances = np.array(ubm.variances)
            gwarm = np.asarray(linear_scoring(models, warm, sarg, off_arg, norm))
            chk.count(1, key=("ml-machine-with-ubm-argument",))
            if not np.array_equal(gwarm, ga):
                chk.fail("an ML machine constructed with a ubm argument is scored against that other model instead of itself when passed as the UBM", ctx)
            # ... and keeps standing for it when the prior is trained further / re-parameterised AFTER the MAP machine was built
            ubm2 = copy.deepcopy(ubm)
            mapm2 = GMMMachine(n_gaussians=C, trainer="map", ubm=ubm2)
            mapm2.means = np.array(models[0])
            ubm2.means = np.asarray(ubm2.means) + 0.3 * np.sqrt(np.asarray(ubm2.variances))
            ubm2.variances = np.asarray(ubm2.variances) * 1.7
            g_prior = np.asarray(linear_scoring(models, ubm2, sarg, off_arg, norm))
            g_map = np.asarray(linear_scoring(models, mapm2, sarg, off_arg, norm))
            chk.count(1, key=("map-prior-changed-later",))
            if not np.array_equal(g_map, g_prior):
                chk.fail("after its prior was re-parameterised, a MAP-adapted machine passed as the UBM no longer gives the scores of its prior (stale snapshot)", ctx)
        # ---- test statistics accumulated from a Dask array that is ALSO chunked along the feature axis: the same statistics, the same scores
        if i % 3 == 1 and D >= 2:
            import dask.array as _da
            Xd_ = gen.sample_from(r, w, mu + s * 0.5, var, 8)
            st_n = ubm.acc_stats(Xd_)
            for fch_ in (tuple([1] * D), (1, D - 1)):
                try:
                    st_d = ubm.acc_stats(_da.from_array(Xd_, chunks=((3, 5), fch_)))
                    chk.count(1, key=("acc_stats, feature-axis chunks", len(fch_)))
                    sc_n = np.asarray(linear_scoring(models, ubm, [st_n], 0, True))
                    sc_d = np.asarray(linear_scoring(models, ubm, [st_d], 0, True))
                    if not (int(st_d.t) == int(st_n.t) and np.allclose(np.asarray(st_d.n), np.asarray(st_n.n), rtol=1e-10) and np.asarray(st_d.sum_px).shape == np.asarray(st_n.sum_px).shape
                            and np.allclose(sc_d, sc_n, rtol=1e-9, atol=1e-12)):
                        chk.fail("statistics accumulated from a Dask array with feature-axis chunks %s (t = %s, sum_px shape %s) give linear scores %s instead of %s"
                                 % (fch_, st_d.t, np.asarray(st_d.sum_px).shape, sc_d.ravel().tolist(), sc_n.ravel().tolist()), dict(ctx, feature_chunks=list(fch_)))
                except Exception as e:
                    chk.fail("acc_stats on a Dask array with feature-axis chunks %s raises %r" % (fch_, e), dict(ctx, feature_chunks=list(fch_)))
        # ---- derivative: d/de sum_i log p(x_i | ubm means moved by e (model - ubm)) at e = 0
        if i % 3 == 0:
            X = gen.sample_from(r, w, mu + s * 0.5, var, 6)
            st = ubm.acc_stats(X)
            sc0 = float(np.asarray(linear_scoring(models[0], ubm, st, 0, False))[0, 0])

            def L(e):
                mm = make_gmm(w, umu + e * (models[0] - umu), uvar)
                return math.fsum(np.asarray(mm.log_likelihood(X)))
            h = 1e-5
            fd = (L(h) - L(-h)) / (2 * h)
            chk.count(1, key=("derivative", C, D))
            if not abs(fd - sc0) <= 1e-5 * max(1.0, abs(sc0)):
                chk.fail("linear score %.10g is not the derivative %.10g of the UBM log-likelihood along the model direction" % (sc0, fd),
                         dict(ctx, X=hexlist(X)))
    bad, info = cq.run_cases("C08", IMPORTS, "ls_case", "ls_check", terms)
    chk.correspondence("linear_scoring (machines/arrays, single/list statistics, scalar/(C,D)/(T,C,D) offsets, normalisation, zero-frame guard) ~ LF.linear_scoring",
                       len(terms), bad, info)
    chk.partial = []
    return chk.finish(
        rule="UBMs C,D<=3; 1-3 models as machines / 3-D array / 2-D array; 1-3 test statistics as single object or list, 15% zero-frame; offsets scalar / (C,D) / "
             "(T,C,D); normalisation on/off; distinct = (models-as, stats-as, offset kind, norm, zero-frame present) | (derivative,C,D)")
