"""C09  Each JFA training phase is exact EM: its marginal likelihood never decreases."""
import copy
import dask

import numpy as np

from .. import coqio as cq
from .. import fa
from .. import gen
from ..impl import hexlist


def marg_lowrank(W, sig, N, G):
    """log marginal (up to constants) of one unit with latent ~ N(0,I), offset W latent: N, G flat (CD)."""
    r = W.shape[1]
    P = np.eye(r) + W.T @ (W * (N / sig)[:, None])
    b = W.T @ (G / sig)
    return 0.5 * float(b @ np.linalg.solve(P, b)) - 0.5 * float(np.linalg.slogdet(P)[1])


def phase_v_marginal(m, classes):
    D = m.ubm.means.shape[1]
    sig, mu = m.ubm.variances.flatten(), m.ubm.means.flatten()
    tot = 0.0
    for Xi in classes:
        N = np.repeat(sum(np.asarray(s.n) for s in Xi), D)
        F = sum(np.asarray(s.sum_px) for s in Xi).flatten()
        tot += marg_lowrank(np.asarray(m.V), sig, N, F - N * mu)
    return tot


def phase_u_marginal(m, classes, ys):
    D = m.ubm.means.shape[1]
    sig, mu = m.ubm.variances.flatten(), m.ubm.means.flatten()
    tot = 0.0
    for Xi, y in zip(classes, ys):
        base = mu + np.asarray(m.V) @ y
        for s in Xi:
            N = np.repeat(np.asarray(s.n), D)
            tot += marg_lowrank(np.asarray(m.U), sig, N, np.asarray(s.sum_px).flatten() - N * base)
    return tot


def phase_d_marginal(m, classes, ys, xss):
    D = m.ubm.means.shape[1]
    sig, mu = m.ubm.variances.flatten(), m.ubm.means.flatten()
    Dv = np.asarray(m.D)
    tot = 0.0
    for Xi, y, xs in zip(classes, ys, xss):
        base = mu + np.asarray(m.V) @ y
        N = np.zeros_like(mu)
        G = np.zeros_like(mu)
        for h, s in enumerate(Xi):
            n = np.repeat(np.asarray(s.n), D)
            N += n
            G += np.asarray(s.sum_px).flatten() - n * (base + np.asarray(m.U) @ xs[:, h])
        P = 1 + Dv * Dv * N / sig
        b = Dv * G / sig
        tot += 0.5 * float(np.sum(b * b / P)) - 0.5 * float(np.sum(np.log(P)))
    return tot


def em_d_update(m, classes, ys, xss):
    """The exact EM step of the D phase, coordinate by coordinate: D'_j = sum_i G_ij E[z_ij] / sum_i N_ij E[z_ij^2] (posterior under the current D)."""
    D = m.ubm.means.shape[1]
    sig, mu = m.ubm.variances.flatten(), m.ubm.means.flatten()
    Dv = np.asarray(m.D, dtype=float)
    num, den = np.zeros_like(mu), np.zeros_like(mu)
    for Xi, y, xs in zip(classes, ys, xss):
        base = mu + np.asarray(m.V) @ y
        N = np.zeros_like(mu)
        G = np.zeros_like(mu)
        for h, s in enumerate(Xi):
            n = np.repeat(np.asarray(s.n), D)
            N += n
            G += np.asarray(s.sum_px).flatten() - n * (base + np.asarray(m.U) @ xs[:, h])
        P = 1 + Dv * Dv * N / sig
        zb = Dv * G / sig / P
        num += G * zb
        den += N * (1.0 / P + zb * zb)
    return num, den


def normal_equation_gap(W, A1, A2, C, D):
    """largest violation of  W_c A1_c = A2_c  (the M-step of a subspace phase), relative to the size of the terms"""
    W, A1, A2 = np.asarray(W, dtype=float), np.asarray(A1, dtype=float), np.asarray(A2, dtype=float)
    worst = 0.0
    for c in range(C):
        Wc, A2c = W[c * D:(c + 1) * D], A2[c * D:(c + 1) * D]
        lhs = Wc @ A1[c]
        scale = float(np.abs(A2c).max() + np.abs(Wc).max() * np.abs(A1[c]).max() + 1e-300)
        worst = max(worst, float(np.abs(lhs - A2c).max()) / scale)
    return worst


def run(chk):
    chk.prove()
    r = gen.rng(chk.seed, "C09")
    n_cases = 14 if chk.tier == "quick" else 600
    terms = []
    for i in range(n_cases):
        ubm, s = fa.gen_ubm(r, C=r.choice([1, 2]), D=r.choice([1, 2, 3]))
        C, D = ubm.means.shape
        rU, rV = r.choice([1, 2, 3]), r.choice([1, 2, 3])
        K = r.choice([2, 3])
        per = [r.choice([1, 2, 3]) for _ in range(K)]
        classes = [fa.gen_stats(r, ubm, p) for p in per]
        if i % 4 == 2:
            # a session that puts NO mass on one Gaussian (hard zero count, as short sessions under a UBM with far-apart components give)
            # while other sessions of the training set do
            big = max(range(K), key=lambda k_: per[k_])
            q0 = classes[big][0]
            c0 = r.randrange(C)
            q0.n, q0.sum_px, q0.sum_pxx = np.array(q0.n, dtype=float), np.array(q0.sum_px, dtype=float), np.array(q0.sum_pxx, dtype=float)
            q0.n[c0], q0.sum_px[c0], q0.sum_pxx[c0] = 0.0, 0.0, 0.0
        if i % 6 == 5:
            # very small (fractional) counts throughout: the same model in other units of "number of frames" (soft counts of down-weighted data)
            for Xi_ in classes:
                for q_ in Xi_:
                    q_.n, q_.sum_px, q_.sum_pxx = np.asarray(q_.n, dtype=float) * 1e-12, np.asarray(q_.sum_px, dtype=float) * 1e-12, np.asarray(q_.sum_pxx, dtype=float) * 1e-12
        X = [st for Xi in classes for st in Xi]
        y = np.array([k for k, p in enumerate(per) for _ in range(p)])
        if i % 2 == 1:
            # labels not grouped by class (interleaved / shuffled sample order); `classes` keeps the true grouping
            perm = list(range(len(X)))
            r.shuffle(perm)
            X = [X[q] for q in perm]
            y = y[perm]
            classes = [[X[q] for q in range(len(X)) if y[q] == k] for k in range(K)]
        iters = r.choice([1, 2, 3])
        seed = r.randint(0, 1000)
        m = fa.make_machine("jfa", copy.deepcopy(ubm), rU, rV, em_iterations=iters, random_state=seed)
        if i % 4 == 3:
            # the UBM's variances are changed AFTER the machine was constructed on it (re-estimated / floors raised): training uses the
            # variances in force when it runs, everywhere
            gq = gen.nprng(r)
            m.ubm.variances = np.asarray(m.ubm.variances) * gq.uniform(0.4, 2.5, size=np.asarray(m.ubm.variances).shape)
            ubm = m.ubm
        if i % 3 == 1:
            # the initial subspaces given as column-major arrays (a transposed checkpoint): the same matrices
            m.V = np.asfortranarray(np.asarray(m.V, dtype=float))
            m.U = np.asfortranarray(np.asarray(m.U, dtype=float))
            ma_, mb_ = copy.deepcopy(m), copy.deepcopy(m)
            mb_.V, mb_.U = np.ascontiguousarray(np.asarray(m.V)), np.ascontiguousarray(np.asarray(m.U))
            for mm_ in (ma_, mb_):
                na_, fa_ = mm_.initialize(X, y, n_classes=K)
                mm_.m_step_v([mm_.e_step_v(X, y, per, na_, fa_)])
            chk.count(1, key=("column-major initial subspaces", rV))
            if not np.allclose(np.asarray(ma_.V), np.asarray(mb_.V), rtol=1e-10, atol=1e-12):
                chk.fail("one V-phase E/M pair started from a column-major (Fortran-ordered) V gives another V than from the same matrix in row-major order (rank %d)" % rV,
                         dict(fa.dump_machine(m, "jfa"), classes=[fa.dump_stats(Xi) for Xi in classes], labels=[int(a) for a in y], layout="F"))
        m0 = copy.deepcopy(m)
        ctx = dict(fa.dump_machine(m, "jfa"), classes=[fa.dump_stats(Xi) for Xi in classes], labels=[int(a) for a in y], em_iterations=iters)
        tolr = 1e-8
        # ---- step the public per-phase functions and watch the phase marginal
        n_acc, f_acc = m.initialize(X, y, n_classes=K)
        if i % 3 != 0:
            # "all initial U, V, D": entries of either sign and other magnitudes than the seeded defaults
            g0 = gen.nprng(r)
            m.D = np.asarray(m.D) * g0.choice([-1.0, 1.0], size=np.asarray(m.D).shape) * g0.uniform(0.5, 3.0, size=np.asarray(m.D).shape)
            if i % 3 == 1:
                dz = np.array(m.D, dtype=float)
                dz[::2] = 0.0            # entries that are exactly zero: exact EM keeps them at zero, everything stays finite
                m.D = dz
            if i % 3 == 2:
                m.U = np.asarray(m.U) * g0.uniform(-2.0, 2.0)
                m.V = np.asarray(m.V) * g0.uniform(-2.0, 2.0)
        if i % 5 == 4:
            # the same kind of initial values typed as integers (a legal way to write an initial V / U)
            m.V = np.rint(np.asarray(m.V) * 3).astype(np.int64)
            m.U = np.rint(np.asarray(m.U) * 3).astype(np.int64)
        okv = True
        prev = phase_v_marginal(m, classes)
        traj = {"V": [prev], "U": [], "D": []}
        def per_class_equals_whole(phase, whole_fn, class_fn, mstep_name, attr):
            """The E-step evaluated class by class (as the Dask path does, with the global accumulators) and reduced by the M-step
            gives the same update as the E-step over the whole training set (accumulators additive over classes: Proofs/FAAcc.v)."""
            ma, mb = copy.deepcopy(m), copy.deepcopy(m)
            getattr(ma, mstep_name)([whole_fn(ma)])
            getattr(mb, mstep_name)([class_fn(mb, k, [X[q] for q in range(len(X)) if y[q] == k]) for k in range(K)])
            chk.count(1, key=("per-class E-steps", phase))
            if not np.allclose(np.asarray(getattr(ma, attr)), np.asarray(getattr(mb, attr)), rtol=1e-9, atol=1e-12):
                chk.fail("%s phase: E-steps evaluated class by class and reduced by the M-step differ from the E-step over the whole training set" % phase,
                         dict(ctx, phase=phase, whole=hexlist(getattr(ma, attr)), per_class=hexlist(getattr(mb, attr))))
        per_class_equals_whole("V", lambda mm: mm.e_step_v(X, y, per, n_acc, f_acc),
                               lambda mm, k, Xk: mm.e_step_v(Xk, [k] * len(Xk), per, n_acc, f_acc), "m_step_v", "V")
        for k in range(iters + 2):
            acc_v_ = m.e_step_v(X, y, per, n_acc, f_acc)
            a1_, a2_ = np.array(acc_v_[0], dtype=float), np.array(acc_v_[1], dtype=float)
            m.m_step_v([acc_v_])
            gap_ = normal_equation_gap(m.V, a1_, a2_, C, D)
            if not gap_ <= 1e-7:
                chk.fail("V phase: after the M-step V does not solve the EM normal equations V_c A1_c = A2_c of the accumulated statistics (relative gap %.3g; largest accumulated A1 entry %.3g)"
                         % (gap_, float(np.abs(a1_).max())), dict(ctx, phase="V", iteration=k + 1))
                okv = False
                break
            cur = phase_v_marginal(m, classes)
            traj["V"].append(cur)
            if not cur >= prev - tolr * max(1.0, abs(prev)):
                chk.fail("V phase: EM iteration %d lowers the marginal likelihood %.12g -> %.12g (rank %d)" % (k + 1, prev, cur, rV), dict(ctx, phase="V", trajectory=traj))
                okv = False
                break
            prev = cur
        ly = m.finalize_v(X, y, per, n_acc, f_acc)
        if okv and i % 2 == 0:
            # call order: after a complete V phase (incl. the final E[y] pass) V is replaced through the public setter;
            # the next E/M pair must be EM for the NEW V (no stale per-machine cache)
            m2 = copy.deepcopy(m)
            Vnew = np.asarray(m2.V) + gen.nprng(r).normal(size=np.asarray(m2.V).shape) * 0.5
            m2.V = Vnew
            before = phase_v_marginal(m2, classes)
            m2.m_step_v([m2.e_step_v(X, y, per, n_acc, f_acc)])
            after = phase_v_marginal(m2, classes)
            chk.count(1, key=("V reassigned", rV))
            # ... and exactly the E/M pair of a FRESH machine that was given the same U, V, D (nothing cached from the earlier phase)
            m3 = fa.make_machine("jfa", copy.deepcopy(ubm), rU, rV, U=np.array(m.U), V=np.array(Vnew), Dv=np.array(m.D), em_iterations=iters, random_state=seed)
            m3.m_step_v([m3.e_step_v(X, y, per, n_acc, f_acc)])
            if not np.allclose(np.asarray(m2.V), np.asarray(m3.V), rtol=1e-9, atol=1e-12):
                chk.fail("V phase after assigning a new V: the next E/M pair differs from that of a fresh machine with the same U, V, D (stale per-machine cache)",
                         dict(ctx, phase="V", reassigned_V=hexlist(Vnew), got=hexlist(m2.V), fresh=hexlist(m3.V)))
            if not after >= before - tolr * max(1.0, abs(before)):
                chk.fail("V phase after assigning a new V: the next EM iteration lowers the marginal likelihood %.12g -> %.12g" % (before, after),
                         dict(ctx, phase="V", reassigned_V=hexlist(Vnew)))
        ys = [np.asarray(ly[k]) for k in range(K)]
        prev = phase_u_marginal(m, classes, ys)
        traj["U"].append(prev)
        per_class_equals_whole("U", lambda mm: mm.e_step_u(X, y, per, ly),
                               lambda mm, k, Xk: mm.e_step_u(Xk, [k] * len(Xk), per, ly), "m_step_u", "U")
        for k in range(iters + 2):
            acc_u_ = m.e_step_u(X, y, per, ly)
            b1_, b2_ = np.array(acc_u_[0], dtype=float), np.array(acc_u_[1], dtype=float)
            m.m_step_u([acc_u_])
            gap_ = normal_equation_gap(m.U, b1_, b2_, C, D)
            if not gap_ <= 1e-7:
                chk.fail("U phase: after the M-step U does not solve the EM normal equations U_c A1_c = A2_c of the accumulated statistics (relative gap %.3g; largest accumulated A1 entry %.3g)"
                         % (gap_, float(np.abs(b1_).max())), dict(ctx, phase="U", iteration=k + 1))
                break
            cur = phase_u_marginal(m, classes, ys)
            traj["U"].append(cur)
            if not cur >= prev - tolr * max(1.0, abs(prev)):
                chk.fail("U phase: EM iteration %d lowers the marginal likelihood %.12g -> %.12g (rank %d)" % (k + 1, prev, cur, rU), dict(ctx, phase="U", trajectory=traj))
                break
            prev = cur
        lx = m.finalize_u(X, y, per, ly)
        if i % 2 == 1:
            # call order: after a complete U phase (incl. the final E[x] pass) U is replaced through the public setter; the next E/M pair is
            # that of a FRESH machine given the same U, V, D (nothing derived from the old U is kept)
            m2u = copy.deepcopy(m)
            Unew = np.asarray(m2u.U) + gen.nprng(r).normal(size=np.asarray(m2u.U).shape) * 0.5
            m2u.U = Unew
            m2u.m_step_u([m2u.e_step_u(X, y, per, ly)])
            m3u = fa.make_machine("jfa", copy.deepcopy(ubm), rU, rV, U=np.array(Unew), V=np.array(m.V), Dv=np.array(m.D), em_iterations=iters, random_state=seed)
            m3u.m_step_u([m3u.e_step_u(X, y, per, ly)])
            chk.count(1, key=("U reassigned", rU))
            if not np.allclose(np.asarray(m2u.U), np.asarray(m3u.U), rtol=1e-9, atol=1e-12):
                chk.fail("U phase after assigning a new U to a machine that had trained: the next E/M pair differs from that of a fresh machine with the same U, V, D (stale per-machine cache)",
                         dict(ctx, phase="U", reassigned_U=hexlist(Unew), got=hexlist(m2u.U), fresh=hexlist(m3u.U)))
        xss = [np.asarray(lx[k]) for k in range(K)]
        # the hand-over of the point estimates is the same when the statistics come per class as Dask delayed lists (the layout the bag path builds)
        if i % 2 == 0:
            with dask.config.set(scheduler="synchronous"):
                X_d = [dask.delayed(list)(list(Xk)) for Xk in classes]
                y_d = [np.full(len(Xk), k) for k, Xk in enumerate(classes)]
                ly_d = m.finalize_v(X_d, y_d, per, n_acc, f_acc)
                lx_d = m.finalize_u(X_d, y_d, per, ly_d)
            chk.count(1, key=("hand-over, per-class delayed lists",))
            if not all(np.allclose(np.asarray(ly_d[k], dtype=float), ys[k], rtol=1e-9, atol=1e-12) for k in range(K)):
                chk.fail("finalize_v on per-class Dask delayed lists does not return the E[y] it returns on the list", dict(ctx, phase="V->U hand-over"))
            elif not all(np.allclose(np.asarray(lx_d[k], dtype=float), xss[k], rtol=1e-9, atol=1e-12) for k in range(K)):
                chk.fail("finalize_u on per-class Dask delayed lists does not return the E[x] of the U-phase model (V, E[y] held fixed) that it returns on the list",
                         dict(ctx, phase="U->D hand-over", got=[hexlist(a) for a in lx_d], want=[hexlist(a) for a in xss]))
        prev = phase_d_marginal(m, classes, ys, xss)
        traj["D"].append(prev)
        per_class_equals_whole("D", lambda mm: mm.e_step_d(X, y, per, lx, ly, n_acc, f_acc),
                               lambda mm, k, Xk: mm.e_step_d(Xk, [k] * len(Xk), per, lx, ly, n_acc, f_acc), "m_step_d", "D")
        for k in range(iters + 2):
            num_d, den_d = em_d_update(m, classes, ys, xss)
            m.m_step_d([m.e_step_d(X, y, per, lx, ly, n_acc, f_acc)])
            if np.all(den_d > 0):
                want_d = num_d / den_d
                if not np.allclose(np.asarray(m.D), want_d, rtol=1e-7, atol=1e-10 * (1 + np.abs(want_d).max())):
                    chk.fail("D phase: after E/M iteration %d D is not the exact EM update sum_i G_ij E[z_ij] / sum_i N_ij E[z_ij^2] (entries of either sign allowed)" % (k + 1),
                             dict(ctx, phase="D", got=hexlist(m.D), want=hexlist(want_d)))
                    break
            if not np.all(np.isfinite(np.asarray(m.D))):
                chk.fail("D phase: D is not finite after E/M iteration %d" % (k + 1), dict(ctx, phase="D", got=hexlist(m.D)))
                break
            cur = phase_d_marginal(m, classes, ys, xss)
            traj["D"].append(cur)
            if not cur >= prev - tolr * max(1.0, abs(prev)):
                chk.fail("D phase: EM iteration %d lowers the marginal likelihood %.12g -> %.12g" % (k + 1, prev, cur), dict(ctx, phase="D", trajectory=traj))
                break
            prev = cur
        chk.count(1, key=("phases", C, D, rU, rV, K))
        # ---- fit: shapes, finiteness, correspondence
        mf = copy.deepcopy(m0)
        mf.fit(X, y)
        if not (np.asarray(mf.U).shape == (C * D, rU) and np.asarray(mf.V).shape == (C * D, rV) and np.asarray(mf.D).shape == (C * D,)):
            chk.fail("U/V/D do not keep the shapes (C*D, rank) / (C*D,)", ctx)
        if not all(np.all(np.isfinite(np.asarray(a))) for a in (mf.U, mf.V, mf.D)):
            chk.fail("JFA training produced non-finite U/V/D", ctx)
        if i % 3 == 0:
            # the whole three-phase training from per-class delayed lists gives the same U, V, D
            with dask.config.set(scheduler="synchronous"):
                mfd = copy.deepcopy(m0)
                mfd.fit([dask.delayed(list)(list(Xk)) for Xk in classes], [np.full(len(Xk), k) for k, Xk in enumerate(classes)])
            chk.count(1, key=("fit, per-class delayed lists",))
            for nm_ in ("V", "U", "D"):
                a_, b_ = np.asarray(getattr(mfd, nm_), dtype=float), np.asarray(getattr(mf, nm_), dtype=float)
                if not np.allclose(a_, b_, rtol=1e-6, atol=1e-8 * (1 + np.abs(b_).max())):
                    chk.fail("JFA training from per-class Dask delayed lists gives another %s than from the list (phase order V, U, D: the first differing matrix names the broken hand-over)" % nm_,
                             dict(ctx, matrix=nm_, got=hexlist(a_), want=hexlist(b_)))
                    break
        sc = max(1.0, float(np.abs(mf.U).max()), float(np.abs(mf.V).max()))
        terms.append("{| ft_u := %s; ft_f := %s; ft_rU := %s; ft_rV := %s; ft_D := %s; ft_iters := %s; ft_classes := [%s]; ft_rtol := %s; ft_atol := %s; ft_U := %s; ft_V := %s; ft_Dv := %s |}" % (
            fa.ubm_term(ubm), fa.fa_term(m0, "jfa"), cq.nat(rU), cq.nat(rV), cq.nat(D), cq.nat(iters),
            "; ".join(fa.gstats_term(Xi) for Xi in classes), cq.fl(2.0 ** -18), cq.fl(1e-7 * sc), cq.mat(mf.U), cq.mat(mf.V), cq.vec(mf.D)))
        # ISV fit correspondence on the same data
        mi = fa.make_machine("isv", copy.deepcopy(ubm), rU, None, em_iterations=iters, random_state=seed)
        mi0 = copy.deepcopy(mi)
        mi.fit(X, y)
        terms.append("{| ft_u := %s; ft_f := %s; ft_rU := %s; ft_rV := %s; ft_D := %s; ft_iters := %s; ft_classes := [%s]; ft_rtol := %s; ft_atol := %s; ft_U := %s; ft_V := []; ft_Dv := %s |}" % (
            fa.ubm_term(ubm), fa.fa_term(mi0, "isv"), cq.nat(rU), cq.nat(0), cq.nat(D), cq.nat(iters),
            "; ".join(fa.gstats_term(Xi) for Xi in classes), cq.fl(2.0 ** -18), cq.fl(1e-7 * max(1.0, float(np.abs(mi.U).max()))), cq.mat(mi.U), cq.vec(mi.D)))
        if i < 2:
            chk.sample({"C": C, "D": D, "rU": rU, "rV": rV, "classes": per, "iterations": iters, "marginal_trajectories": traj})
    bad, info = cq.run_cases("C09", fa.IMPORTS, "ft_case", "ft_check", terms, shard=20)
    chk.correspondence("JFAMachine.fit / ISVMachine.fit (statistics lists) ~ FF.jfa_fit / FF.isv_fit", len(terms), bad, info)
    chk.notes["rank > 1"] = ("V / U phase monotonicity is a theorem for any rank (Proofs/JFAGeneral.v: ln det through a Cholesky factor under a contract); "
                             "the slogdet oracle of this run evaluates the same marginals numerically after every iteration, ranks 1-3")
    return chk.finish(
        rule="UBMs C<=2, D<=3, ranks 1-3 for U and V, 2-3 classes with 1-3 sessions each (fractional counts), 1-3 EM iterations (+2 more when stepping the public "
             "per-phase E/M functions); phase marginals computed independently (slogdet / closed form for the diagonal phase); distinct = (C,D,rU,rV,#classes)")
