"""C10  I-vectors are posterior means; i-vector EM never decreases the likelihood."""
import copy

import dask.bag
import numpy as np

from .. import coqio as cq
from .. import fa
from .. import gen
from .. import iv
from ..impl import hexlist


def run(chk):
    chk.prove()
    r = gen.rng(chk.seed, "C10")
    n_cases = 40 if chk.tier == "quick" else 1500
    pterms, fterms = [], []
    for i in range(n_cases):
        ubm, s = fa.gen_ubm(r)
        C, D = ubm.means.shape
        t = r.choice([1, 2, 3, 5])
        g = gen.nprng(r)
        T = g.normal(size=(C, D, t))
        sigma = np.asarray(ubm.variances) * g.uniform(0.5, 2.0, size=(C, D))
        m = iv.with_params(ubm, T, sigma, t)
        m.update_sigma = bool(i % 2)     # a training switch: the i-vector is that of the machine's covariances either way
        stats = fa.gen_stats(r, ubm, r.choice([2, 3, 5]))
        zero_comp = (i % 6 == 0) and C >= 2
        zc = r.randrange(C)    # which component is starved / tiny: first, middle or last
        if zero_comp:          # a component with zero count in every training statistic
            for st in stats:
                st.n = np.array(st.n, dtype=float)
                st.sum_px = np.array(st.sum_px, dtype=float)
                st.sum_pxx = np.array(st.sum_pxx, dtype=float)
                st.n[zc] = 0.0
                st.sum_px[zc] = 0.0
                st.sum_pxx[zc] = 0.0
        centred = (i % 5 == 2)
        if centred:            # an utterance that has frames but whose first-order statistics sit exactly on the UBM means (F_c = N_c m_c)
            st0c = stats[0]
            st0c.n = np.array(st0c.n, dtype=float)
            st0c.sum_px = st0c.n[:, None] * np.asarray(ubm.means, dtype=float)
            st0c.sum_pxx = np.array(st0c.sum_pxx, dtype=float)
        tiny_comp = (i % 6 == 3) and C >= 2
        if tiny_comp:          # a component with a small but non-zero (fractional) count in every training statistic
            kf = r.choice([1e-3, 1e-4, 1e-6])
            for st in stats:
                st.n = np.array(st.n, dtype=float)
                st.sum_px = np.array(st.sum_px, dtype=float)
                st.sum_pxx = np.array(st.sum_pxx, dtype=float)
                st.n[zc] *= kf
                st.sum_px[zc] *= kf
                st.sum_pxx[zc] *= kf
        ctx = {"ubm_means": hexlist(ubm.means), "ubm_vars": hexlist(ubm.variances), "T": hexlist(T), "sigma": hexlist(sigma), "tiny_count_component": tiny_comp,
               "update_sigma_switch": bool(i % 2), "shape": [C, D, t], "stats": iv.dump_stats(stats), "zero_count_component": zero_comp, "component": zc, "centred_item": centred}
        # ---- projection: the unique solution of (I + sum_c N_c T_c' S_c^-1 T_c) w = sum_c T_c' S_c^-1 (F_c - N_c m_c)
        st0 = stats[0]
        w = np.asarray(m.project(st0))
        P = np.eye(t)
        b = np.zeros(t)
        for c in range(C):
            P += st0.n[c] * (T[c].T / sigma[c]) @ T[c]
            b += (T[c].T / sigma[c]) @ (st0.sum_px[c] - st0.n[c] * ubm.means[c])
        chk.count(1, key=("project", C, D, t))
        if not np.allclose(P @ w, b, rtol=1e-9, atol=1e-10 * (1 + np.abs(b).max())):
            chk.fail("project() does not solve the posterior-mean equation", dict(ctx, w=hexlist(w)))
        if not np.all(np.linalg.eigvalsh((P + P.T) / 2) >= 1 - 1e-9):
            chk.fail("posterior precision is not I + PSD", ctx)
        tr = m.transform([st0, stats[-1]])
        if not (np.array_equal(np.asarray(tr[0]), w) and np.array_equal(np.asarray(tr[1]), np.asarray(m.project(stats[-1])))):
            chk.fail("transform(list) differs from project per item", ctx)
        zs = fa.mkstats(C, D, 0, np.zeros(C), np.zeros((C, D)), np.zeros((C, D)))
        wz = np.asarray(m.project(zs))
        if not np.all(wz == 0):
            chk.fail("statistics with no frames do not give the zero i-vector", dict(ctx, got=hexlist(wz)))
        pterms.append("{| pj_m := %s; pj_t := %s; pj_s := %s; pj_rtol := %s; pj_atol := %s; pj_out := %s |}" % (
            iv.ivm_term(ubm.means, T, sigma), cq.nat(t), iv.gs_term(st0), cq.fl(2.0 ** -26), cq.fl(1e-10), cq.vec(w)))
        # statistics whose frame counter t was left at 0 although they hold counts (GMMStats.init_fields(n=..., sum_px=...) does that): the
        # i-vector depends on N and F only
        if i % 5 == 3:
            import copy as _cp
            st_t0 = _cp.copy(st0)
            st_t0.t = 0
            w_t0 = np.asarray(m.project(st_t0))
            chk.count(1, key=("project, frame counter 0",))
            if not np.allclose(w_t0, w, rtol=1e-12, atol=1e-14):
                chk.fail("project() of statistics with non-zero counts but frame counter t = 0 gives %s instead of the posterior mean %s" % (w_t0.tolist(), w.tolist()), dict(ctx, t=0))
        # covariances typed as integers and UPDATED by the public E/M functions: the result is that of the same values as floats
        if i % 7 == 4:
            from bob.learn.em import ivector as iv_module3
            sig_i3 = np.asarray(np.clip(np.rint(sigma * 2.0 / float(sigma.min())), 1, 9), dtype=np.int64)
            mi3, mf3 = iv.with_params(ubm, T, sig_i3.astype(float), t, floor=1e-5), iv.with_params(ubm, T, sig_i3.astype(float), t, floor=1e-5)
            mi3.sigma = sig_i3.copy()
            mi3.update_sigma = mf3.update_sigma = True
            try:
                iv_module3.m_step(mi3, iv_module3.e_step(mi3, stats))
                iv_module3.m_step(mf3, iv_module3.e_step(mf3, stats))
                chk.count(1, key=("m_step, integer-typed sigma",))
                if not (np.allclose(np.asarray(mi3.sigma, dtype=float), np.asarray(mf3.sigma, dtype=float), rtol=1e-10, atol=1e-12) and np.allclose(mi3.T, mf3.T, rtol=1e-10, atol=1e-12)):
                    chk.fail("one E/M iteration with covariance updating on a machine whose sigma was assigned as an integer array %s gives other covariances than on the same values as floats"
                             % sig_i3.tolist(), dict(ctx, sigma_int=sig_i3.tolist()))
            except Exception as e:
                chk.fail("E/M iteration on a machine with integer-typed sigma raises %r" % (e,), dict(ctx, sigma_int=sig_i3.tolist()))
        # T / sigma are plain attributes: after an in-place edit of the arrays the machine holds (machine.sigma *= 4, machine.T[c] = 0) the
        # next projection is the posterior mean under the EDITED values (nothing derived from the old ones is kept)
        if i % 5 == 1:
            me_ = iv.with_params(ubm, T, sigma, t)
            me_.project(st0)                                # a first projection under the original parameters
            me_.sigma *= 4.0
            me_.T[r.randrange(C)] = 0.0
            mf_ = iv.with_params(ubm, np.array(me_.T), np.array(me_.sigma), t)
            we_, wf_ = np.asarray(me_.project(st0)), np.asarray(mf_.project(st0))
            chk.count(1, key=("project after in-place edit",))
            if not np.allclose(we_, wf_, rtol=1e-12, atol=1e-14):
                chk.fail("after editing machine.sigma / machine.T in place, project() is not the posterior mean under the machine's current parameters (a fresh machine with the same values gives %s, this one %s)"
                         % (wf_.tolist(), we_.tolist()), dict(ctx, history="project; sigma *= 4; T[c] = 0; project"))
        # covariances typed as integers (a legal way to write a sigma of ones and twos): the i-vector is that of the values
        if i % 7 == 3:
            sig_i = np.asarray(np.clip(np.rint(sigma * 2.0 / float(sigma.min())), 1, 9), dtype=np.int64)
            mi_, mf_ = iv.with_params(ubm, T, sig_i.astype(float), t), iv.with_params(ubm, T, sig_i.astype(float), t)
            mi_.sigma = sig_i           # assigned as the integer array itself
            wi_, wf_ = np.asarray(mi_.project(st0)), np.asarray(mf_.project(st0))
            chk.count(1, key=("integer-sigma",))
            if not np.allclose(wi_, wf_, rtol=1e-12, atol=1e-14):
                chk.fail("the i-vector under integer-typed covariances %s differs from the one under the same values as floats" % sig_i.tolist(), dict(ctx, sigma_int=sig_i.tolist()))
        # partial E-step statistics combined with the public `+`: operands untouched, sums of different pairs independent, total = E-step of the pool
        if i % 7 == 2 and len(stats) >= 3:
            from bob.learn.em import ivector as iv_module_
            mp_ = iv.with_params(ubm, T, sigma, t)
            parts_ = [iv_module_.e_step(mp_, [q_]) for q_ in stats[:3]]
            flds_ = [k_ for k_ in ("nij_sigma_wij2", "fnorm_sigma_wij", "snormij", "nij") if hasattr(parts_[0], k_)]
            keep_ = [{k_: np.array(getattr(p_, k_), copy=True) for k_ in flds_} for p_ in parts_]
            s01_, s02_ = parts_[0] + parts_[1], parts_[0] + parts_[2]
            pool02_ = iv_module_.e_step(mp_, [stats[0], stats[2]])
            chk.count(1, key=("IVectorStats +",))
            if any(not np.array_equal(np.asarray(getattr(p_, k_)), v_) for p_, kp_ in zip(parts_, keep_) for k_, v_ in kp_.items()):
                chk.fail("adding two partial i-vector E-step statistics with + modifies an operand", ctx)
            elif not all(np.allclose(np.asarray(getattr(s02_, k_)), np.asarray(getattr(pool02_, k_)), rtol=1e-10, atol=1e-12) for k_ in flds_):
                chk.fail("the sum p0 + p2 of partial i-vector E-step statistics (taken after p0 + p1) differs from the E-step of the pooled utterances 0 and 2", ctx)
        # one E-step, two M-steps from the same statistics object: the statistics are not consumed
        if i % 7 == 5:
            from bob.learn.em import ivector as iv_module
            ma_ = iv.with_params(ubm, T, sigma, t)
            ma_.update_sigma, ma_.variance_floor = True, 1e-10
            acc_ = iv_module.e_step(ma_, stats)
            snap_ = {k_: np.array(getattr(acc_, k_), copy=True) for k_ in ("nij_sigma_wij2", "fnorm_sigma_wij", "snormij", "nij") if hasattr(acc_, k_)}
            m1_, m2_ = copy.deepcopy(ma_), copy.deepcopy(ma_)
            iv_module.m_step(m1_, acc_)
            iv_module.m_step(m2_, acc_)
            chk.count(1, key=("m_step twice",))
            if any(not np.array_equal(np.asarray(getattr(acc_, k_)), v_) for k_, v_ in snap_.items()):
                chk.fail("ivector.m_step modifies the statistics it is given", ctx)
            elif not (np.allclose(m1_.T, m2_.T, rtol=1e-12, atol=0) and np.allclose(m1_.sigma, m2_.sigma, rtol=1e-12, atol=0)):
                chk.fail("two M-steps from the same E-step statistics give different extractors", ctx)
        # ---- training: marginal likelihood never decreases; floor respected; finite
        upd = (i % 4 in (1, 2))
        floor = r.choice([1e-10, 1e-10, 0.3 * float(np.min(ubm.variances))])
        if upd and i % 2 == 0:
            # make the floor bind: above the smallest covariance an unfloored first iteration produces
            probe = iv.fit_machine(ubm, stats, t, 1, True, 1e-300, r.randint(0, 10 ** 6) if False else 1)
            sig1 = np.asarray(probe.sigma)
            # (an over-parameterised extractor can explain all the variance: the unfloored update is then 0 up to rounding and sits on the
            #  probe's 1e-300 floor; such a value is not a usable floor for the likelihood oracle)
            if np.all(np.isfinite(sig1)) and np.all(sig1 > 1e-8 * float(np.min(ubm.variances))):
                floor = float(np.median(sig1))
        if upd and zero_comp:
            # a floor ABOVE the current covariance of the component that receives no count: it must be lifted to the floor as well
            floor = 1.5 * float(np.max(np.asarray(ubm.variances)[zc]))
        if not upd and i % 4 == 3:
            # without covariance updating the covariances are not touched at all, also when some of them lie below the (unused) floor
            floor = float(np.median(np.asarray(ubm.variances)))
        seed = r.randint(0, 10 ** 6)
        K = r.choice([1, 2, 4])
        T0 = iv.t0_of(seed, C, D, t)
        prevL = iv.marginal(np.asarray(ubm.means), T0, np.asarray(ubm.variances), stats)
        traj = [prevL]
        ok = True
        for k in range(1, K + 1):
            mk = iv.fit_machine(ubm, stats, t, k, upd, floor, seed)
            if not (np.all(np.isfinite(mk.T)) and np.all(np.isfinite(mk.sigma))):
                chk.fail("i-vector training produced non-finite T/sigma after %d iterations" % k, dict(ctx, update_sigma=upd, floor=floor, seed=seed))
                ok = False
                break
            if not upd and not np.array_equal(np.asarray(mk.sigma), np.asarray(ubm.variances, dtype=float)):
                chk.fail("training with update_sigma=False changed the covariances (floor %g, smallest UBM variance %g)" % (floor, float(np.min(ubm.variances))),
                         dict(ctx, update_sigma=upd, floor=floor, seed=seed, sigma_after=hexlist(mk.sigma)))
                ok = False
                break
            if upd and not np.all(np.asarray(mk.sigma) >= floor):
                chk.fail("updated covariances fall below the configured floor %g" % floor, dict(ctx, update_sigma=upd, floor=floor, seed=seed))
            if upd and k == 1:
                # the floored covariances are max(floor, unfloored update) entry by entry
                free = iv.fit_machine(ubm, stats, t, 1, True, 1e-300, seed)
                want = np.maximum(floor, np.asarray(free.sigma))
                if np.all(np.isfinite(want)) and not np.allclose(np.asarray(mk.sigma), want, rtol=1e-9, atol=0):
                    chk.fail("first-iteration covariances are not max(floor, unfloored update)", dict(ctx, update_sigma=upd, floor=floor, seed=seed))
            if k == 1:
                # exact EM: the new T_c solves the normal equations  T_c A_c = B_c  with  A_c = sum_u N_uc E[w w'],  B_c = sum_u (F_uc - N_uc m_c) E[w]'
                # (posterior moments under T0 and the UBM covariances, recomputed here); a component without any count keeps T_c = 0
                mu0, sg0 = np.asarray(ubm.means, dtype=float), np.asarray(ubm.variances, dtype=float)
                A = np.zeros((C, t, t))
                B = np.zeros((C, D, t))
                for st in stats:
                    nn = np.asarray(st.n, dtype=float)
                    Fc = np.asarray(st.sum_px, dtype=float) - nn[:, None] * mu0
                    Pm, bv = np.eye(t), np.zeros(t)
                    for c in range(C):
                        Pm = Pm + nn[c] * (T0[c].T / sg0[c]) @ T0[c]
                        bv = bv + (T0[c].T / sg0[c]) @ Fc[c]
                    Pi = np.linalg.inv(Pm)
                    wu = Pi @ bv
                    E2 = Pi + np.outer(wu, wu)
                    for c in range(C):
                        A[c] += nn[c] * E2
                        B[c] += np.outer(Fc[c], wu)
                for c in range(C):
                    Tc = np.asarray(mk.T)[c]
                    if A[c].any():
                        lhs = Tc @ A[c]
                        if not np.allclose(lhs, B[c], rtol=1e-7, atol=1e-9 * (np.abs(B[c]).max() + np.abs(lhs).max() + 1e-300)):
                            chk.fail("after one training iteration T of component %d does not solve the EM normal equations T_c A_c = B_c (total count %.3g)" % (c, float(sum(np.asarray(q.n)[c] for q in stats))),
                                     dict(ctx, update_sigma=upd, floor=floor, seed=seed, component=c, T_c=hexlist(Tc), A_c=hexlist(A[c]), B_c=hexlist(B[c])))
                            ok = False
                    elif np.any(Tc != 0):
                        chk.fail("a component without any count gets a non-zero T after one iteration", dict(ctx, update_sigma=upd, floor=floor, seed=seed, component=c))
                        ok = False
            floor_active = bool(upd and np.any(np.asarray(mk.sigma) <= floor))
            L = iv.marginal(np.asarray(ubm.means), np.asarray(mk.T), np.asarray(mk.sigma), stats)
            traj.append(L)
            if not floor_active and not L >= prevL - 1e-8 * max(1.0, abs(prevL)):
                chk.fail("i-vector EM iteration %d lowers the marginal likelihood %.12g -> %.12g (update_sigma=%s)" % (k, prevL, L, upd),
                         dict(ctx, update_sigma=upd, floor=floor, seed=seed, trajectory=traj))
                ok = False
                break
            prevL = L
        chk.count(1, key=("fit", C, D, t, upd, zero_comp, tiny_comp))
        # conditioning policy (DESIGN 9.5): an over-parameterised extractor (dim_t >= features) can explain all the variance of a component; the
        # covariance update is then a difference of equal numbers - rounding noise, above or below the floor depending on the summation order.
        # Such runs are not compared with the float model (the property oracles above still ran on them).
        collapsed = False
        if upd:
            try:
                fr = iv.fit_machine(ubm, stats, t, K, True, 1e-300, seed)
                collapsed = not (np.all(np.isfinite(fr.sigma)) and np.all(np.asarray(fr.sigma) > 1e-8 * float(np.min(ubm.variances))))
            except Exception:
                collapsed = True
        if i % 8 == 1 and not collapsed:
            # the same training from a Dask bag (partitions given as lists, and as one-shot generators that every iteration must re-create):
            # same extractor as from the list, hence the same non-decreasing likelihoods
            for lazy in (False, True):
                def bag():
                    b_ = dask.bag.from_sequence(stats, npartitions=2)
                    return b_.map_partitions(lambda ch: (copy.copy(x) for x in ch)) if lazy else b_
                mb = iv.fit_machine(ubm, bag(), t, 3, upd, floor, seed)
                ml = iv.fit_machine(ubm, stats, t, 3, upd, floor, seed)
                chk.count(1, key=("fit-from-bag", lazy))
                if not (np.allclose(mb.T, ml.T, rtol=1e-8, atol=1e-10) and np.allclose(mb.sigma, ml.sigma, rtol=1e-8, atol=1e-12)):
                    Lb = iv.marginal(np.asarray(ubm.means), np.asarray(mb.T), np.asarray(mb.sigma), stats)
                    Ll = iv.marginal(np.asarray(ubm.means), np.asarray(ml.T), np.asarray(ml.sigma), stats)
                    chk.fail("3 training iterations from a Dask bag (%s partitions) give another extractor than from the list: marginal likelihood %.12g vs %.12g"
                             % ("generator" if lazy else "list", Lb, Ll), dict(ctx, update_sigma=upd, floor=floor, seed=seed, lazy_partitions=lazy))
        if ok and not collapsed:
            sc = max(1.0, float(np.abs(mk.T).max()))
            fterms.append("{| if_m := %s; if_C := %s; if_D := %s; if_t := %s; if_upd := %s; if_floor := %s; if_iters := %s; if_parts := %s; if_rtol := %s; if_atol := %s; if_T := %s; if_sigma := %s |}" % (
                iv.ivm_term(ubm.means, T0, ubm.variances), cq.nat(C), cq.nat(D), cq.nat(t), cq.boolean(upd), cq.fl(floor), cq.nat(K),
                iv.parts_term([stats]), cq.fl(2.0 ** -20), cq.fl(1e-8 * sc), cq.ten3(mk.T), cq.mat(mk.sigma)))
        if i < 2:
            chk.sample({"C": C, "D": D, "t": t, "update_sigma": upd, "floor": floor, "iterations": K, "marginal_trajectory": traj, "ivector": hexlist(w)})
    bad, info = cq.run_cases("C10p", iv.IMPORTS, "pj_case", "pj_check", pterms, shard=100)
    chk.correspondence("IVectorMachine.project ~ IF.project", len(pterms), bad, info)
    bad, info = cq.run_cases("C10f", iv.IMPORTS, "if_case", "if_check", fterms, shard=40)
    chk.correspondence("IVectorMachine.fit (list input; T0 replayed from the seeded global draw) ~ IF.fit", len(fterms), bad, info)
    chk.notes["dim_t > 1"] = ("marginal-likelihood monotonicity is a theorem for any dim_t, with and without covariance updating while no floor is active "
                              "(Proofs/IVGeneral.v, IVGeneralSigma.v: ln det through a Cholesky factor under a contract); with an active floor it is only "
                              "evaluated numerically (slogdet after every iteration)")
    return chk.finish(
        rule="UBMs C,D<=3, dim_t 1,2,3,5, fractional counts, every 6th case with a zero-count component and every 6th with a component of tiny (1e-3..1e-6) counts, update_sigma on/off, floors 1e-10 or binding; "
             "marginal likelihood computed independently (slogdet) after every iteration; distinct = (project,C,D,t) | (fit,C,D,t,update_sigma,zero-count)")
