"""C11  ISV/JFA scores are channel-compensated linear scores, same via every entry point."""
import copy

import numpy as np

from .. import coqio as cq
from .. import fa
from .. import gen
from ..impl import da, em, hexlist

linear_scoring = em.linear_scoring


def run(chk):
    chk.prove()
    r = gen.rng(chk.seed, "C11")
    n_cases = 40 if chk.tier == "quick" else 1500
    sterms, xterms = [], []
    for i in range(n_cases):
        kind = "isv" if i % 2 else "jfa"
        ubm, s = fa.gen_ubm(r)
        C, D = ubm.means.shape
        rU, rV = r.choice([1, 2]), r.choice([1, 2])
        if i % 7 == 3:
            rV = C * D          # as many speaker factors as supervector entries: y and z have the same length (nothing may be inferred from lengths)
        m = fa.make_machine(kind, ubm, rU, rV, r=r, dscale=r.choice([0.3, 1.0]))
        g = gen.nprng(r)
        z = g.normal(size=C * D)
        y = g.normal(size=rV)
        model = z if kind == "isv" else (y, z)
        nprobe = r.choice([1, 2, 3])
        arrays = [gen.sample_from(r, np.asarray(ubm.weights), np.asarray(ubm.means) + r.uniform(-1, 1), np.asarray(ubm.variances), r.choice([2, 5, 9]))
                  for _ in range(nprobe)]
        probe = [ubm.acc_stats(a) for a in arrays]
        ctx = dict(fa.dump_machine(m, kind), kind=kind, z=hexlist(z), y=hexlist(y) if kind == "jfa" else None, probe=fa.dump_stats(probe),
                   arrays=[hexlist(a) for a in arrays])
        score = float(m.score(model, probe))
        chk.count(1, key=(kind, C, D, rU, nprobe))
        if i < 2:
            chk.sample(dict(kind=kind, C=C, D=D, rU=rU, rV=rV, probe_items=nprobe, score=score))
        # ---- oracle 1: score = frame-normalised linear score of the client mean against the pooled probe, UBM shifted by U x
        pooled = probe[0]
        for p in probe[1:]:
            pooled = pooled + p
        x = np.asarray(m.estimate_x(probe))
        ux = np.asarray(m.estimate_ux(probe))
        if not np.allclose(ux, np.asarray(m.U) @ x, rtol=1e-12, atol=1e-12):
            chk.fail("estimate_ux is not U @ estimate_x", ctx)
        # x = posterior mean given the pooled statistics: (I + U' S^-1 N U) x = U' S^-1 (F - N m)
        sig = ubm.variances.flatten()
        n = np.repeat(np.asarray(pooled.n), D)
        A = np.eye(rU) + np.asarray(m.U).T @ (np.asarray(m.U) * (n / sig)[:, None])
        b = np.asarray(m.U).T @ ((np.asarray(pooled.sum_px).flatten() - n * ubm.means.flatten()) / sig)
        if not np.allclose(A @ x, b, rtol=1e-8, atol=1e-9 * (1 + np.abs(b).max())):
            chk.fail("estimate_x is not the channel-factor posterior mean of the pooled probe statistics", dict(ctx, x=hexlist(x)))
        cm = np.asarray(m.D) * z + ubm.means.flatten()
        if kind == "jfa":
            cm = cm + np.asarray(m.V) @ y
        want = float(linear_scoring(cm.reshape(C, D), ubm, pooled, ux.reshape(C, D), True)[0][0])
        tol = 1e-9 * max(1.0, abs(want))
        if not abs(score - want) <= tol:
            chk.fail("score %.12g is not the frame-normalised linear score %.12g of the client mean with channel offset U x" % (score, want), ctx)
        # ---- oracle 2: several statistics = their sum; array entry points
        s_sum = float(m.score(model, [pooled]))
        if not abs(s_sum - score) <= tol:
            chk.fail("scoring a probe given as several statistics (%.12g) differs from scoring their sum (%.12g)" % (score, s_sum), ctx)
        # the array-level training entry point on a Dask array with the clients' sessions INTERLEAVED (0,1,2,0,1,2): same model as training on
        # the UBM statistics of the same sessions (list input), hence the same scores
        if i % 8 == 5:
            import dask.array as da_
            g8 = gen.nprng(r)
            S8, F8 = 6, 3
            X8 = np.asarray(ubm.means)[g8.integers(0, C, size=(S8, F8))] + g8.normal(size=(S8, F8, D)) * np.sqrt(np.asarray(ubm.variances).mean())
            y8 = np.array([0, 1, 2, 0, 1, 2])
            ma_ = fa.make_machine(kind, ubm, rU, rV, em_iterations=1, random_state=3)
            mb_ = fa.make_machine(kind, ubm, rU, rV, em_iterations=1, random_state=3)
            try:
                ma_.fit_using_array(da_.from_array(X8, chunks=((2, 4), (F8,), (D,))), y8)
                mb_.fit([ubm.acc_stats(x_) for x_ in X8], y8)
                chk.count(1, key=("fit_using_array, Dask, interleaved labels", kind))
                badm = [nm_ for nm_ in ("U", "D") + (("V",) if kind == "jfa" else ()) if not np.allclose(np.asarray(getattr(ma_, nm_)), np.asarray(getattr(mb_, nm_)), rtol=1e-7, atol=1e-9)]
                if badm:
                    chk.fail("%s.fit_using_array on a Dask array with interleaved client labels %s gives another %s than fit on the UBM statistics of the same sessions"
                             % (kind.upper(), y8.tolist(), badm), dict(ctx, X=hexlist(X8), labels=y8.tolist()))
            except Exception as e:
                chk.fail("%s.fit_using_array on a Dask array with interleaved client labels raises %r" % (kind.upper(), e), dict(ctx, X=hexlist(X8), labels=y8.tolist()))
        # a UBM with one variance at the GMM floor (machine epsilon), loaded by ONE channel factor only, and a probe of a few hundred frames: the
        # posterior precision is graded (1e18 in one direction against 1e2 in the other) and x is still THE solution of
        # (I + U' S^-1 N U) x = U' S^-1 (F - N m)   - reference in exact rational arithmetic
        if i % 6 == 4 and rU == 2:
            import copy as _cp2
            from fractions import Fraction as _Fr
            ub_t = _cp2.deepcopy(ubm)
            ub_t.variance_thresholds = 0.0
            vt_ = np.array(ub_t.variances, dtype=float)
            vt_[0, 0] = float(np.finfo(float).eps)
            ub_t.variances = vt_
            Ug = np.array(m.U, dtype=float)
            Ug[0] = [1.0, 0.0]
            mt2 = fa.make_machine(kind, ub_t, rU, rV, U=Ug, V=np.asarray(m.V) if kind == "jfa" else None, Dv=np.asarray(m.D))
            g6 = gen.nprng(r)
            nn6 = np.round(g6.uniform(50.0, 150.0, size=C), 2)
            xbar6 = np.round(np.asarray(ub_t.means, dtype=float) + g6.normal(size=(C, D)) * 0.3, 6)
            xbar6[0, 0] = float(np.asarray(ub_t.means)[0, 0]) + 1e-9
            Fm = nn6[:, None] * xbar6
            pr6 = fa.mkstats(C, D, int(nn6.sum()), nn6, Fm, nn6[:, None] * (xbar6 ** 2 + 1.0))
            x6 = np.asarray(mt2.estimate_x([pr6]), dtype=float)
            Sg = [_Fr(float(v)) for v in np.asarray(ub_t.variances, dtype=float).reshape(-1)]
            Nn = [_Fr(float(v)) for v in np.repeat(nn6, D)]
            Mm = [_Fr(float(v)) for v in np.asarray(ub_t.means, dtype=float).reshape(-1)]
            Ff = [_Fr(float(v)) for v in np.asarray(pr6.sum_px, dtype=float).reshape(-1)]
            Uf = [[_Fr(float(v)) for v in row] for row in Ug]
            P = [[_Fr(int(a == b)) + sum(Uf[q][a] * Uf[q][b] * Nn[q] / Sg[q] for q in range(C * D)) for b in range(2)] for a in range(2)]
            bb = [sum(Uf[q][a] * (Ff[q] - Nn[q] * Mm[q]) / Sg[q] for q in range(C * D)) for a in range(2)]
            det = P[0][0] * P[1][1] - P[0][1] * P[1][0]
            x_ref = np.array([float((P[1][1] * bb[0] - P[0][1] * bb[1]) / det), float((P[0][0] * bb[1] - P[1][0] * bb[0]) / det)])
            chk.count(1, key=("estimate_x, a variance at machine epsilon", kind))
            if not np.allclose(x6, x_ref, rtol=1e-5, atol=1e-8 * (1 + np.abs(x_ref).max())):
                chk.fail("%s: with one UBM variance at machine epsilon (graded posterior precision) estimate_x gives %s, the exact solution of its normal equation is %s" % (kind, x6.tolist(), x_ref.tolist()),
                         dict(ctx, tiny_variance_entry=[0, 0], counts=hexlist(nn6), U_used=hexlist(Ug)))
        # score, train the SAME machine object further, score again: the second score is that of a fresh machine holding the trained U, V, D
        if i % 5 == 2:
            import copy as _copy
            mt_ = _copy.deepcopy(m)
            mt_.em_iterations = 1
            tr_ = [fa.gen_stats(r, ubm, 2) for _ in range(2)]
            mt_.fit([q_ for cl_ in tr_ for q_ in cl_], np.array([0, 0, 1, 1]))
            mf_ = fa.make_machine(kind, ubm, rU, rV, U=np.array(mt_.U), V=np.array(mt_.V) if kind == "jfa" else None, Dv=np.array(mt_.D))
            s_after, s_fresh = float(mt_.score(model, probe)), float(mf_.score(model, probe))
            x_after, x_fresh = np.asarray(mt_.estimate_x(probe), dtype=float), np.asarray(mf_.estimate_x(probe), dtype=float)
            chk.count(1, key=("score, train, score again", kind))
            if not (abs(s_after - s_fresh) <= 1e-9 * max(1.0, abs(s_fresh)) and np.allclose(x_after, x_fresh, rtol=1e-9, atol=1e-12)):
                chk.fail("%s: after the machine was trained further (it had scored before) score / estimate_x differ from those of a fresh machine with the same U, V, D: %.12g vs %.12g"
                         % (kind, s_after, s_fresh), dict(ctx, history="score, fit, score"))
        # probe statistics stored in single precision, and hard-assignment statistics with integer-typed counts and sums: scored as the same
        # values in float64 (bit for bit: every such value is exact in binary64)
        if i % 4 == 1:
            import copy as _cp
            for how_ in ("float32", "int64"):
                pn_, p64_ = [], []
                # (single precision: one statistic only - pooling two float32 statistics adds them in float32, which is rounding in the storage
                #  type, not a property of scoring)
                for q_ in (probe[:1] if how_ == "float32" else probe):
                    a_, b_ = _cp.copy(q_), _cp.copy(q_)
                    if how_ == "float32":
                        a_.n, a_.sum_px = np.asarray(q_.n, dtype=np.float32), np.asarray(q_.sum_px, dtype=np.float32)
                    else:
                        a_.n, a_.sum_px = np.rint(np.asarray(q_.n)).astype(np.int64), np.rint(np.asarray(q_.sum_px) * 4).astype(np.int64)
                    b_.n, b_.sum_px = np.asarray(a_.n, dtype=np.float64), np.asarray(a_.sum_px, dtype=np.float64)
                    a_.sum_pxx = b_.sum_pxx = np.asarray(q_.sum_pxx, dtype=float)
                    pn_.append(a_)
                    p64_.append(b_)
                try:
                    s_n, s_64 = float(m.score(model, pn_)), float(m.score(model, p64_))
                    chk.count(1, key=("probe statistics dtype", how_, kind))
                    if not abs(s_n - s_64) <= 1e-13 * max(1.0, abs(s_64)):
                        chk.fail("%s: a probe whose statistics are stored as %s scores %.17g, the same values in float64 %.17g" % (kind, how_, s_n, s_64), dict(ctx, probe_dtype=how_))
                except Exception as e:
                    chk.fail("%s: scoring a probe whose statistics are stored as %s raises %r" % (kind, how_, e), dict(ctx, probe_dtype=how_))
        # the probe as another kind of sequence than a list: the same statistics, the same score
        if nprobe > 1:
            try:
                s_tup = float(m.score(model, tuple(probe)))
                chk.count(1, key=("probe as tuple", kind))
                if not abs(s_tup - score) <= tol:
                    chk.fail("a probe given as a tuple of %d statistics scores %.12g, the same statistics in a list %.12g" % (nprobe, s_tup, score), dict(ctx, probe_container="tuple"))
            except Exception as e:
                chk.fail("scoring a probe given as a tuple of statistics raises %r" % (e,), dict(ctx, probe_container="tuple"))
        s_arr = float(m.score_using_array(model, arrays))
        if not abs(s_arr - score) <= tol:
            chk.fail("score_using_array differs from score on the UBM statistics of the same arrays", ctx)
        m.enroll_iterations = r.choice([1, 2, 5])          # the array entry point honours the machine's setting like the statistics one
        ea = m.enroll_using_array(arrays[0])
        es = m.enroll([ubm.acc_stats(arrays[0])])
        same = np.allclose(np.asarray(ea[0]), np.asarray(es[0]), rtol=1e-12, atol=1e-14) and np.allclose(np.asarray(ea[-1]), np.asarray(es[-1]), rtol=1e-12, atol=1e-14)
        if not same:
            chk.fail("enroll_using_array differs from enroll on the UBM statistics of the same array", ctx)
        if kind == "isv":
            try:
                tr = np.asarray(m.transform(arrays[0]))
                want_t = np.asarray(m.estimate_ux([ubm.acc_stats(arrays[0])]))
                if not np.allclose(tr, want_t, rtol=1e-12, atol=1e-14):
                    chk.fail("ISVMachine.transform is not the channel offset U x of the array's UBM statistics", ctx)
            except Exception as e:
                chk.fail("ISVMachine.transform raises %r" % (e,), ctx)
            # a single frame given as a plain feature vector (acc_stats accepts it) is a legal probe as well
            try:
                tr1 = np.asarray(m.transform(arrays[0][0]))
                want_1 = np.asarray(m.estimate_ux([ubm.acc_stats(arrays[0][0])]))
                if not (tr1.shape == want_1.shape and np.allclose(tr1, want_1, rtol=1e-12, atol=1e-14)):
                    chk.fail("ISVMachine.transform of one frame given as a vector is not the channel offset U x of that frame's UBM statistics", dict(ctx, frame=hexlist(arrays[0][0])))
            except Exception as e:
                chk.fail("ISVMachine.transform of a single frame given as a vector raises %r" % (e,), ctx)
        # probe statistics computed from Dask arrays (their fields are lazy): same channel factor and score
        if i % 4 == 3:
            try:
                dprobe = [ubm.acc_stats(da.from_array(a_, chunks=(max(1, len(a_) // 2), a_.shape[1]))) for a_ in arrays]
                s_d = float(m.score(model, dprobe))
                x_d = np.asarray(m.estimate_x(dprobe), dtype=float)
                chk.count(1, key=("dask-backed-probe", kind))
                if not (abs(s_d - score) <= 1e-9 * max(1.0, abs(score)) and np.allclose(x_d, x, rtol=1e-9, atol=1e-12)):
                    chk.fail("a probe whose statistics were computed from Dask arrays scores %.12g instead of %.12g" % (s_d, score), ctx)
            except Exception as e:
                chk.fail("scoring a probe whose statistics were computed from Dask arrays raises %r" % (e,), ctx)
        # training from arrays: the labels as a column (n, 1) are the same labels
        if i % 10 == 4:
            g_ = gen.nprng(r)
            Xa_ = np.asarray(ubm.means)[g_.integers(0, C, size=(4, 3))] + g_.normal(size=(4, 3, D)) * np.sqrt(np.asarray(ubm.variances).mean())
            ya_ = np.array([0, 1, 1, 0])
            try:
                mk_ = lambda: fa.make_machine(kind, copy.deepcopy(ubm), 1, 1, em_iterations=1, random_state=2)
                Uf = np.asarray(mk_().fit_using_array(Xa_, ya_).U)
                Uc = np.asarray(mk_().fit_using_array(Xa_, ya_.reshape(-1, 1)).U)
                Ul = np.asarray(mk_().fit_using_array(Xa_, [int(q) for q in ya_]).U)
                chk.count(1, key=("label-layouts", kind))
                if not (np.allclose(Uf, Uc, rtol=1e-12, atol=0) and np.allclose(Uf, Ul, rtol=1e-12, atol=0)):
                    chk.fail("%s.fit_using_array gives another U when the same labels are passed as a column / a list" % kind.upper(), ctx)
            except Exception as e:
                chk.fail("%s.fit_using_array with labels as a flat array / column / list raises %r" % (kind.upper(), e), ctx)
        # ---- fractional / soft counts: statistics whose occupancies do not add up to the frame count t (the normalisation is by t)
        kf = r.choice([0.37, 1.6])
        probe_f = []
        for p_ in probe:
            q_ = copy.deepcopy(p_)
            q_.n, q_.sum_px, q_.sum_pxx = np.asarray(p_.n) * kf, np.asarray(p_.sum_px) * kf, np.asarray(p_.sum_pxx) * kf
            probe_f.append(q_)
        ux_f = np.asarray(m.estimate_ux(probe_f))
        n_f = np.repeat(sum(np.asarray(q_.n) for q_ in probe_f), D)
        F_f = sum(np.asarray(q_.sum_px).flatten() for q_ in probe_f)
        t_f = sum(int(q_.t) for q_ in probe_f)
        want_f = float(np.sum((cm - ubm.means.flatten()) / sig * (F_f - n_f * (ubm.means.flatten() + ux_f)))) / t_f
        got_f = float(m.score(model, probe_f))
        chk.count(1, key=("fractional", kind))
        if not abs(got_f - want_f) <= 1e-9 * max(1.0, abs(want_f)):
            chk.fail("with fractional counts (sum of occupancies %.4g, %d frames) the score %.12g is not the linear score normalised by the number of frames %.12g"
                     % (float(n_f.sum() / D), t_f, got_f, want_f), dict(ctx, probe=fa.dump_stats(probe_f), count_scale=kf))
        # inputs untouched by scoring
        # ---- correspondence
        sc = max(1.0, abs(score))
        sterms.append("{| sc_u := %s; sc_f := %s; sc_rU := %s; sc_D := %s; sc_y := %s; sc_z := %s; sc_x := %s; sc_t := %s; sc_rtol := %s; sc_atol := %s; sc_out := %s |}" % (
            fa.ubm_term(ubm), fa.fa_term(m, kind), cq.nat(rU), cq.nat(D), "None" if kind == "isv" else "(Some %s)" % cq.vec(y), cq.vec(z),
            fa.gstats_term(probe), cq.fl(float(pooled.t)), cq.fl(2.0 ** -26), cq.fl(1e-9 * sc), cq.fl(score)))
        xterms.append("{| ex_u := %s; ex_f := %s; ex_rU := %s; ex_D := %s; ex_x := %s; ex_rtol := %s; ex_atol := %s; ex_out := %s; ex_ux := %s |}" % (
            fa.ubm_term(ubm), fa.fa_term(m, kind), cq.nat(rU), cq.nat(D), fa.gstats_term(probe), cq.fl(2.0 ** -26), cq.fl(1e-10), cq.vec(x), cq.vec(ux)))
        # call order: score, change U through the public setter, score again - the channel factor must follow the CURRENT U
        if i % 2 == 0:
            Unew = np.asarray(m.U) + g.normal(size=np.asarray(m.U).shape) * 0.6
            m.U = Unew
            ref = fa.make_machine(kind, ubm, rU, rV, U=Unew, V=np.asarray(m.V) if kind == "jfa" else None, Dv=np.asarray(m.D))
            s_after, s_ref = float(m.score(model, probe)), float(ref.score(model, probe))
            chk.count(1, key=("U reassigned", kind))
            if not abs(s_after - s_ref) <= 1e-9 * max(1.0, abs(s_ref)):
                chk.fail("after assigning a new U the score %.12g is not that of a fresh machine with the same U, V, D (%.12g): stale channel-factor cache"
                         % (s_after, s_ref), dict(ctx, U_new=hexlist(Unew)))
            if not np.allclose(np.asarray(m.estimate_x(probe)), np.asarray(ref.estimate_x(probe)), rtol=1e-9, atol=1e-12):
                chk.fail("after assigning a new U estimate_x is not the posterior mean for the current U", dict(ctx, U_new=hexlist(Unew)))
    bad, info = cq.run_cases("C11s", fa.IMPORTS, "sc_case", "sc_check", sterms, shard=100)
    chk.correspondence("ISVMachine.score / JFAMachine.score ~ LF.score1 (client mean, pooled probe, U x, normalised)", len(sterms), bad, info)
    bad, info = cq.run_cases("C11x", fa.IMPORTS, "ex_case", "ex_check", xterms, shard=100)
    chk.correspondence("estimate_x / estimate_ux ~ FF.estimate_x / FF.estimate_ux", len(xterms), bad, info)
    return chk.finish(
        rule="UBMs C,D<=3, ranks 1-2, random client factors, probes of 1-3 arrays of 2-9 frames; every entry point (score, score on the pooled sum, "
             "score_using_array, enroll vs enroll_using_array, estimate_x/ux, ISV transform); distinct = (kind,C,D,rU,#probe items)")
