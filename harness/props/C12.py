"""C12  Training from statistics is independent of bag partitioning and scheduling."""
import copy

import dask.bag
from dask import delayed as dask_delayed
import numpy as np

from .. import coqio as cq
from .. import dasksched
from .. import fa
from .. import gen
from .. import iv
from ..impl import hexlist


def close(a, b, rtol=1e-8, atol=1e-10):
    a, b = np.asarray(a, dtype=float), np.asarray(b, dtype=float)
    return a.shape == b.shape and np.allclose(a, b, rtol=rtol, atol=atol * (1 + np.abs(b).max()))


def run(chk):
    chk.prove()
    r = gen.rng(chk.seed, "C12")
    n_rounds = 3 if chk.tier == "quick" else 16
    seeds = [0, 1] if chk.tier == "quick" else [0, 1, 2, 3]
    fterms = []
    for rd in range(n_rounds):
        ubm, s = fa.gen_ubm(r, C=2, D=r.choice([1, 2]))
        C, D = ubm.means.shape
        K = r.choice([2, 3])
        n = r.choice([5, 6, 7]) if chk.tier == "quick" else r.choice([4, 5, 6, 7, 9])
        stats = fa.gen_stats(r, ubm, n)
        y = [k % K for k in range(n)]
        r.shuffle(y)                                  # unsorted labels, partitions mix classes
        if rd % 3 == 1:
            # one class never occupies the last Gaussian (hard zero counts in all its sessions) while the other classes do
            for q_, lab_ in zip(stats, y):
                if lab_ == 0:
                    q_.n = np.array(q_.n, dtype=float)
                    q_.sum_px = np.array(q_.sum_px, dtype=float)
                    q_.sum_pxx = np.array(q_.sum_pxx, dtype=float)
                    q_.n[-1], q_.sum_px[-1], q_.sum_pxx[-1] = 0.0, 0.0, 0.0
        ctx = {"ubm_means": hexlist(ubm.means), "ubm_vars": hexlist(ubm.variances), "stats": fa.dump_stats(stats), "labels": y}
        nparts = list(range(1, n + 1)) if chk.tier == "thorough" else sorted(set([1, 2, 3, n - 1, n]))
        # uneven partition sizes (from_sequence only makes equal ones): built from delayed lists
        uneven = [(1, n - 3, 2), (2, 1, n - 3)] + [gen.random_composition(r, n, 5) for _ in range(1 if chk.tier == "quick" else 6)]
        uneven = [u for u in dict.fromkeys(uneven) if len(set(u)) > 1 and min(u) >= 1 and sum(u) == n]
        # empty partitions (an empty remainder after a repartition / filter), first, in the middle and last
        uneven += [(0, n), (2, 0, n - 2), (n - 1, 1, 0)]

        def bag_of(k):
            if isinstance(k, tuple) and k[0] == "lazy":
                # partitions that are one-shot iterables (generators), as map_partitions with a generator expression produces
                return dask.bag.from_sequence(stats, npartitions=k[1]).map_partitions(lambda ch: (copy.copy(x) for x in ch))
            if isinstance(k, tuple):
                return dask.bag.from_delayed([dask_delayed(list)(blk) for blk in gen.split_rows(stats, k)])
            return dask.bag.from_sequence(stats, npartitions=k)
        nparts = nparts + uneven
        # one-shot generator partitions: only for the i-vector trainer (it iterates its partitions; ISV/JFA call len() on them and refuse
        # generators loudly) and only with shared memory (a generator cannot be serialised by any executor)
        lazy = [("lazy", 2), ("lazy", max(2, n - 2))]
        # ------------------------------------------------------------ ISV / JFA
        for kind in ("isv", "jfa"):
            def mk():
                return fa.make_machine(kind, copy.deepcopy(ubm), 1, 1, em_iterations=2, random_state=5)
            ref = mk()
            ref.fit(stats, np.array(y))
            for k in nparts:
                for iso in (False, True):
                    for sd in seeds:
                        def job():
                            m = mk()
                            m.fit(bag_of(k), y)
                            return m
                        try:
                            m, sch = dasksched.run_under(100 * chk.seed + sd, iso, job)
                        except Exception as e:
                            chk.fail("%s.fit(bag with %s partitions) raises %r" % (kind.upper(), k, e), dict(ctx, kind=kind, npartitions=k, isolated=iso, order_seed=sd))
                            continue
                        chk.count(1, key=(kind, (k % 2) if isinstance(k, int) else ("lazy" if k[0] == "lazy" else "uneven"), iso))
                        bad = [nm for nm, a, b in (("U", m.U, ref.U), ("D", m.D, ref.D)) + ((("V", m.V, ref.V),) if kind == "jfa" else ()) if not close(a, b)]
                        if bad:
                            chk.fail("%s trained from a bag with %s partitions differs from the in-memory list in %s (order seed %d, isolated=%s)"
                                     % (kind.upper(), k, bad, sd, iso), dict(ctx, kind=kind, npartitions=k, isolated=iso, order_seed=sd,
                                                                           executed_order=sch.orders[-1] if sch.orders else []))
            # the labels given as a Dask bag too, partitioned differently from the statistics bag
            def job_ybag():
                m_ = mk()
                m_.fit(bag_of(3), dask.bag.from_sequence(list(y), npartitions=2))
                return m_
            try:
                myb_, _sch = dasksched.run_under(100 * chk.seed + 2, False, job_ybag)
                chk.count(1, key=(kind, "labels as a differently partitioned bag"))
                bad = [nm for nm, a, b in (("U", myb_.U, ref.U), ("D", myb_.D, ref.D)) + ((("V", myb_.V, ref.V),) if kind == "jfa" else ()) if not close(a, b)]
                if bad:
                    chk.fail("%s trained from a statistics bag (3 partitions) with the labels in a bag of 2 partitions differs from the list-trained model in %s" % (kind.upper(), bad),
                             dict(ctx, kind=kind, npartitions=3, label_partitions=2))
            except Exception as e:
                chk.fail("%s.fit(statistics bag with 3 partitions, labels bag with 2 partitions) raises %r" % (kind.upper(), e), dict(ctx, kind=kind, npartitions=3, label_partitions=2))
            # a machine that has already been USED (channel factors estimated, a client enrolled) and is then trained from a bag on workers that see
            # serialised copies of it: the same model as an unused machine trained from the list
            def job_used():
                m_ = mk()
                m_.estimate_x([stats[0]])
                m_.enroll([stats[1]])
                m_.fit(bag_of(3), y)
                return m_
            try:
                mu_, _sch = dasksched.run_under(100 * chk.seed + 1, True, job_used)
                chk.count(1, key=(kind, "used before training, serialised tasks"))
                bad = [nm for nm, a, b in (("U", mu_.U, ref.U), ("D", mu_.D, ref.D)) + ((("V", mu_.V, ref.V),) if kind == "jfa" else ()) if not close(a, b)]
                if bad:
                    chk.fail("%s that had estimated channel factors / enrolled a client before being trained from a bag with serialised tasks differs from the list-trained model in %s"
                             % (kind.upper(), bad), dict(ctx, kind=kind, npartitions=3, isolated=True, history="estimate_x, enroll, fit(bag)"))
            except Exception as e:
                chk.fail("%s (used before) fit from a bag with serialised tasks raises %r" % (kind.upper(), e), dict(ctx, kind=kind))
            # the same machine trained a second time from the SAME bag object with another assignment of the sessions to classes: as from the list
            y2 = y[1:] + y[:1]
            if y2 != y:
                def job2():
                    m_ = mk()
                    b_ = bag_of(2)
                    m_.fit(b_, y)
                    m_.fit(b_, y2)
                    return m_
                ref2 = mk()
                ref2.fit(stats, np.array(y))
                ref2.fit(stats, np.array(y2))
                try:
                    m2_, _sch = dasksched.run_under(100 * chk.seed, False, job2)
                    chk.count(1, key=(kind, "second fit, same bag, other labels"))
                    bad = [nm for nm, a, b in (("U", m2_.U, ref2.U), ("D", m2_.D, ref2.D)) + ((("V", m2_.V, ref2.V),) if kind == "jfa" else ()) if not close(a, b)]
                    if bad:
                        chk.fail("%s fitted a second time from the same bag with other labels differs from the same two fits on the in-memory list in %s" % (kind.upper(), bad),
                                 dict(ctx, kind=kind, npartitions=2, second_labels=y2))
                except Exception as e:
                    chk.fail("%s second fit from the same bag raises %r" % (kind.upper(), e), dict(ctx, kind=kind, second_labels=y2))
        # ------------------------------------------------------------ i-vector (pairwise tree reduction: odd and even)
        t = r.choice([1, 2])
        upd = bool(rd % 2)
        seed = r.randint(0, 10 ** 6)
        ref = iv.fit_machine(ubm, stats, t, 2, upd, 1e-10, seed)
        for k in nparts + lazy:
            for iso in ((False,) if isinstance(k, tuple) and k[0] == "lazy" else (False, True)):
                for sd in seeds[:2]:
                    def jobi():
                        return iv.fit_machine(ubm, bag_of(k), t, 2, upd, 1e-10, seed)
                    try:
                        m, sch = dasksched.run_under(100 * chk.seed + sd, iso, jobi)
                    except Exception as e:
                        chk.fail("IVectorMachine.fit(bag with %s partitions) raises %r" % (k, e), dict(ctx, npartitions=k, isolated=iso))
                        continue
                    chk.count(1, key=("ivector", (k % 2) if isinstance(k, int) else ("lazy" if k[0] == "lazy" else "uneven"), iso))
                    if not (close(m.T, ref.T) and close(m.sigma, ref.sigma)):
                        chk.fail("i-vector extractor trained from a bag with %s partitions differs from the in-memory list (order seed %d, isolated=%s)" % (k, sd, iso),
                                 dict(ctx, npartitions=k, isolated=iso, order_seed=sd, update_sigma=upd, executed_order=sch.orders[-1] if sch.orders else []))
        # partial E-step statistics accumulated with += (as one does when driving the public e_step / m_step over partitions by hand): every field is
        # the sum over the partitions, and the M-step from it is that of the whole list
        from bob.learn.em import ivector as _ivm
        mh_ = iv.with_params(ubm, iv.t0_of(seed, C, D, t), np.asarray(ubm.variances), t)
        mh_.update_sigma = True
        halves = [stats[: len(stats) // 2], stats[len(stats) // 2:]]
        acc_ = _ivm.e_step(mh_, halves[0])
        acc_ += _ivm.e_step(mh_, halves[1])
        whole_ = _ivm.e_step(mh_, stats)
        chk.count(1, key=("ivector", "+= accumulation"))
        badf = [k_ for k_ in ("nij_sigma_wij2", "fnorm_sigma_wij", "snormij", "nij") if hasattr(whole_, k_)
                and not np.allclose(np.asarray(getattr(acc_, k_)), np.asarray(getattr(whole_, k_)), rtol=1e-10, atol=1e-12)]
        if badf:
            chk.fail("i-vector E-step statistics of two partitions accumulated with += differ from the E-step of the whole list in %s" % badf, dict(ctx, fields=badf))
        # statistics with very small fractional counts throughout (soft counts of heavily down-weighted data): bag = list
        if rd % 2 == 0:
            tiny = []
            for q_ in stats:
                qt_ = copy.copy(q_)
                qt_.n, qt_.sum_px, qt_.sum_pxx = np.asarray(q_.n, dtype=float) * 1e-10, np.asarray(q_.sum_px, dtype=float) * 1e-10, np.asarray(q_.sum_pxx, dtype=float) * 1e-10
                tiny.append(qt_)
            ref_t = iv.fit_machine(ubm, tiny, t, 2, False, 1e-10, seed)
            for kparts in (2, 3):
                mt_, _sch = dasksched.run_under(100 * chk.seed + 5, False, lambda: iv.fit_machine(ubm, dask.bag.from_sequence(tiny, npartitions=kparts), t, 2, False, 1e-10, seed))
                chk.count(1, key=("ivector", "tiny counts", kparts))
                # (with counts of 1e-10 the trained T is itself of order 1e-18: compare relative to its size)
                if not np.allclose(np.asarray(mt_.T), np.asarray(ref_t.T), rtol=1e-6, atol=1e-8 * float(np.abs(np.asarray(ref_t.T)).max())):
                    chk.fail("i-vector extractor trained from a bag with %d partitions of statistics whose counts are all around 1e-10 differs from the in-memory list" % kparts,
                             dict(ctx, npartitions=kparts, count_scale=1e-10))
        # correspondence: the model on the same partition structure
        k = r.choice(nparts)
        b = bag_of(k)
        parts = [list(p) for p in dasksched.run_under(0, False, lambda: [d.compute() for d in b.to_delayed()])[0]]
        T0 = iv.t0_of(seed, C, D, t)
        mb, _ = dasksched.run_under(0, False, lambda: iv.fit_machine(ubm, bag_of(k), t, 2, upd, 1e-10, seed))
        sc = max(1.0, float(np.abs(mb.T).max()))
        fterms.append("{| if_m := %s; if_C := %s; if_D := %s; if_t := %s; if_upd := %s; if_floor := %s; if_iters := %s; if_parts := %s; if_rtol := %s; if_atol := %s; if_T := %s; if_sigma := %s |}" % (
            iv.ivm_term(ubm.means, T0, ubm.variances), cq.nat(C), cq.nat(D), cq.nat(t), cq.boolean(upd), cq.fl(1e-10), cq.nat(2),
            iv.parts_term(parts), cq.fl(2.0 ** -20), cq.fl(1e-8 * sc), cq.ten3(mb.T), cq.mat(mb.sigma)))
        if rd < 2:
            chk.sample({"n_stats": n, "classes": K, "labels": y, "partitions_tried": nparts, "partition_sizes_sample": [len(p) for p in parts]})
    bad, info = cq.run_cases("C12", iv.IMPORTS, "if_case", "if_check", fterms, shard=20)
    chk.correspondence("IVectorMachine.fit(dask.bag) ~ IF.fit on the bag's own partition structure (tree reduction)", len(fterms), bad, info)
    return chk.finish(
        rule="4..9 labelled statistics with shuffled labels; bags with 1,2,3,n-1,n partitions (every 1..n in the thorough tier: odd and even reduction lengths, "
             "single-element and mixed-class partitions, uneven sizes, partitions that are one-shot generators); shuffled task orders; shared vs cloudpickle-isolated; ISV, JFA, i-vector; each compared with the in-memory "
             "list fit; distinct = (trainer, parity of #partitions, isolated)",
        trusted=["custom Dask scheduler harness/dasksched.py"])
