"""C13  Trained models are valid: finite, weights on the simplex, variances above floors."""
import copy
import itertools

import numpy as np

from .. import coqio as cq
from .. import fa
from .. import gen
from .. import gmmtrain as gt
from .. import iv
from .. import kmtrain as kt
from ..impl import GMMMachine, KMeansMachine, da, hexlist, make_gmm

SWITCHES = list(itertools.product([True, False], repeat=3))


def degenerate(r, kind, N, D):
    g = gen.nprng(r)
    if kind == "duplicates":
        base = g.normal(size=(max(1, N // 4), D))
        return base[g.integers(0, len(base), size=N)]
    if kind == "constant_column":
        X = g.normal(size=(N, D))
        X[:, 0] = 3.25
        return X
    if kind == "few_distinct":
        base = g.normal(size=(2, D)) * 3
        return base[g.integers(0, 2, size=N)]
    if kind == "outlier":
        X = g.normal(size=(N, D))
        X[0] = 1e6
        return X
    if kind == "all_equal":
        return np.tile(g.normal(size=(1, D)), (N, 1))
    return g.normal(size=(N, D)) * np.array([10.0 ** r.uniform(-4, 4) for _ in range(D)])


def valid_gmm(m, X, eps, count_floor_slack):
    w, mu, var = np.asarray(m.weights), np.asarray(m.means), np.asarray(m.variances)
    T = np.broadcast_to(np.asarray(m.variance_thresholds, dtype=float), var.shape)
    if not (np.all(np.isfinite(w)) and np.all(np.isfinite(mu)) and np.all(np.isfinite(var))):
        return "non-finite parameters"
    if not (np.all(w >= 0) and 1 - 1e-12 <= w.sum() <= 1 + count_floor_slack + 1e-12):
        return "weights not on the simplex (sum %.17g)" % w.sum()
    if not (np.all(var >= T) and np.all(var > 0)):
        return "a variance below its floor or not positive"
    ll = np.asarray(m.log_likelihood(X))
    if not np.all(np.isfinite(ll)):
        return "non-finite log-likelihood of a training sample"
    return None


def run(chk):
    chk.prove()
    r = gen.rng(chk.seed, "C13")
    n_cases = 36 if chk.tier == "quick" else 300
    kinds = ["duplicates", "constant_column", "few_distinct", "outlier", "all_equal", "scales"]
    eps = float(np.finfo(float).eps)
    terms = []
    for i in range(n_cases):
        kind = kinds[i % len(kinds)]
        D = r.choice([1, 2, 3])
        N = r.choice([5, 8, 13])
        X = degenerate(r, kind, N, D)
        K = r.choice([2, 3, 4])
        ctx = {"data_kind": kind, "X": hexlist(X), "shape": [N, D], "components": K}
        # ---------------------------------------------------------------- k-means (explicit / seeded initialisers)
        g = gen.nprng(r)
        inits = {"array": X[g.integers(0, N, size=K)] + g.normal(size=(K, D)) * 1e-3}
        for how in ("random", "k-means||"):
            try:
                inits[how] = kt.initial_centroids(how, X, K, seed=r.randint(0, 99))
            except Exception:
                pass
        for how, init in inits.items():
            for dask_in in (False, True):
                data = da.from_array(X, chunks=((N // 2, N - N // 2), (D,))) if dask_in else X
                for cap in (1, 2, 4):
                    km = KMeansMachine(n_clusters=K, init_method=np.array(init), max_iter=cap).fit(data)
                    chk.count(1, key=("kmeans", kind, how, dask_in))
                    if not np.all(np.isfinite(km.centroids_)):
                        chk.fail("k-means centroids are not finite after %d iterations (%s data, %s init, dask=%s)" % (cap, kind, how, dask_in),
                                 dict(ctx, init=hexlist(init), max_iter=cap, dask=dask_in))
                        break
                    v, w = km.get_variances_and_weights_for_each_cluster(data)
                    if not (np.all(np.isfinite(v)) and np.all(np.isfinite(w)) and abs(float(np.sum(w)) - 1) < 1e-12):
                        chk.fail("k-means cluster variances/weights are not finite / do not sum to one (%s data)" % kind, dict(ctx, init=hexlist(init)))
                        break
        # ---------------------------------------------------------------- finite half- / single-precision data whose SQUARES leave the range of their
        #                                                                  own type (float16 around 400, float32 around 1e20): finite cluster
        #                                                                  variances / weights and a finite k-means-initialised GMM
        if i % 6 == 4:
            for dt_, off_, sc_ in ((np.float16, 400.0, 1.0), (np.float32, 1e20, 1e18)):
                Xh = (np.vstack([g.normal(size=(6, D)) * sc_ + off_, g.normal(size=(6, D)) * sc_ - off_])).astype(dt_)
                init_h = np.array([[off_] * D, [-off_] * D], dtype=float)
                import warnings as _w
                with _w.catch_warnings():
                    _w.simplefilter("ignore")
                    kmh = KMeansMachine(n_clusters=2, init_method=init_h, max_iter=2).fit(Xh)
                    vh, wh = kmh.get_variances_and_weights_for_each_cluster(Xh)
                    gh = GMMMachine(n_gaussians=2, max_fitting_steps=1, convergence_threshold=None,
                                    k_means_trainer=KMeansMachine(2, init_method=init_h, max_iter=2))
                    gh.fit(Xh)
                chk.count(1, key=("kmeans / gmm init", np.dtype(dt_).name))
                okh = (np.all(np.isfinite(kmh.centroids_)) and np.all(np.isfinite(vh)) and np.all(np.isfinite(wh))
                       and np.all(np.isfinite(gh.means)) and np.all(np.isfinite(gh.variances)) and np.all(np.isfinite(gh.weights)))
                if not okh:
                    chk.fail("finite %s data around %g: k-means cluster variances / the k-means-initialised GMM are not finite (variances %s)"
                             % (np.dtype(dt_).name, off_, np.asarray(vh).tolist()), {"dtype": np.dtype(dt_).name, "X": hexlist(Xh.astype(float)), "init": hexlist(init_h)})
        # ---------------------------------------------------------------- GMM initialised from k-means, ML, every switch setting
        sw = SWITCHES[i % 8]
        for cap in (0, 1, 2, 4):
            gm = GMMMachine(n_gaussians=K, max_fitting_steps=cap, convergence_threshold=None, update_means=sw[0], update_variances=sw[1], update_weights=sw[2],
                            k_means_trainer=KMeansMachine(K, init_method=np.array(inits["array"]), max_iter=2))
            gm.fit(X)
            chk.count(1, key=("gmm-kmeans-init", kind, sw))
            why = valid_gmm(gm, X, eps, K * eps / N)
            if why:
                chk.fail("k-means-initialised ML GMM after %d iterations (%s data, switches %s): %s" % (cap, kind, sw, why), dict(ctx, switches=list(sw), iterations=cap))
                break
        # ---------------------------------------------------------------- GMM ML / MAP from explicit parameters, a component that captures nothing
        mu0 = X[g.integers(0, N, size=K)] + g.normal(size=(K, D)) * 0.1
        mu0[-1] = mu0[-1] + 1e5                                          # starved component
        var0 = np.ones((K, D)) * (np.var(X) + 1e-3)
        # floors: none, scalar, and non-uniform ones (per feature; per component and feature) whose entries differ by orders of magnitude
        thr = r.choice([None, 1e-6, 0.5, "vector", "matrix"])
        if thr == "vector":
            thr = [0.5 if d_ % 2 == 0 else 1e-6 for d_ in range(D)]
        elif thr == "matrix":
            thr = [[(0.5 if (c_ + d_) % 2 == 0 else 1e-6) for d_ in range(D)] for c_ in range(K)]
        for trainer in ("ml", "map"):
            cfg = dict(w=np.ones(K) / K, mu=mu0, var=var0, thr=thr, sw=sw, eps=eps, cap=1, cthr=None)
            if trainer == "map":
                rel_ = r.choice([1e-3, 4.0, None, None])
                # fixed-ratio adaptation also with one ratio per component (unequal entries): the adapted weights still lie on the simplex
                al_ = 0.5 if (rel_ is not None or i % 2) else np.linspace(0.1, 0.9, K)
                cfg = dict(cfg, w=None, mu=None, var=None, map=dict(relevance=rel_, alpha=al_, prior=(np.ones(K) / K, mu0, var0, thr)))
            m, prior = gt.build_machine(cfg)
            for k in range(4):
                m.fit(X)
                chk.count(1, key=("gmm", trainer, kind, sw))
                why = valid_gmm(m, X, eps, K * eps / N)
                if why and not (trainer == "map" and sw[1] and why.startswith("non-finite") is False and False):
                    chk.fail("%s GMM after %d iterations (%s data, switches %s, starved component): %s" % (trainer.upper(), k + 1, kind, sw, why),
                             dict(ctx, switches=list(sw), iterations=k + 1, trainer=trainer, floors=thr))
                    break
            if trainer == "ml" and i % 3 == 0:
                cc = gt.make_case(dict(cfg, cap=2), X, None)
                if cc["well_conditioned"]:
                    terms.append(cc["term"])
        # ---------------------------------------------------------------- one public M-step on hard-assignment statistics with INTEGER counts (as a
        #                                                                  labelling gives them), one of them 0: finite, valid parameters
        if i % 3 == 1:
            from bob.learn.em import GMMStats
            from bob.learn.em import gmm as gmm_module
            lab_ = np.argmin(((mu0[:, None, :] - X[None, :, :]) ** 2).sum(-1), axis=0)
            hs = GMMStats(K, D)
            hs.n = np.bincount(lab_, minlength=K).astype(np.int64)
            hs.sum_px = np.array([X[lab_ == c_].sum(axis=0) for c_ in range(K)])
            hs.sum_pxx = np.array([(X[lab_ == c_] ** 2).sum(axis=0) for c_ in range(K)])
            hs.t = int(N)
            hs.log_likelihood = -1.0
            mh, _pr = gt.build_machine(dict(w=np.ones(K) / K, mu=mu0, var=var0, thr=thr, sw=sw, eps=eps, cap=1, cthr=None))
            gmm_module.m_step([hs], mh)
            chk.count(1, key=("gmm", "ml m_step, integer counts", kind, sw))
            why = valid_gmm(mh, X, eps, K * eps / N)
            if why:
                chk.fail("ML M-step on hard-assignment statistics with integer-typed counts %s (%s data, switches %s): %s" % (hs.n.tolist(), kind, sw, why),
                         dict(ctx, switches=list(sw), trainer="ml", floors=thr, counts=hs.n.tolist(), counts_dtype="int64"))
        # ---------------------------------------------------------------- i-vector
        if i % 2 == 0:
            ubm = make_gmm(np.ones(2) / 2, X[:2] + np.array([[0.0] * D, [1.0] * D]), np.ones((2, D)))
            stats = [ubm.acc_stats(X[a:a + 3]) for a in range(0, N - 2, 2)]
            starve_iv = (i % 4 == 0)
            if starve_iv:          # a component that receives exactly no count from any training statistic
                for st in stats:
                    st.n = np.array(st.n, dtype=float)
                    st.sum_px = np.array(st.sum_px, dtype=float)
                    st.sum_pxx = np.array(st.sum_pxx, dtype=float)
                    st.n[-1], st.sum_px[-1], st.sum_pxx[-1] = 0.0, 0.0, 0.0
            for upd in (False, True):
                for fl in (1e-10, 2.5):          # 2.5 lies above every current covariance (the UBM's are 1): all of them must be lifted
                    mv = iv.fit_machine(ubm, stats, 2, 3, upd, fl, seed=7)
                    chk.count(1, key=("ivector", kind, upd, starve_iv, fl))
                    if not (np.all(np.isfinite(mv.T)) and np.all(np.isfinite(mv.sigma)) and (not upd or np.all(np.asarray(mv.sigma) >= fl))):
                        chk.fail("i-vector training on %s data gives non-finite T/sigma or sigma below the floor %g (update_sigma=%s, starved component: %s)" % (kind, fl, upd, starve_iv),
                                 dict(ctx, update_sigma=upd, variance_floor=fl, starved_component=starve_iv, sigma=hexlist(mv.sigma)))
        if i < 2:
            chk.sample(ctx)
    bad, info = cq.run_cases("C13", gt.IMPORTS, "fit_case", "fit_check", terms, shard=40)
    chk.correspondence("GMMMachine.fit on degenerate data with a starved component ~ MF.fit", len(terms), bad, info)
    chk.partial = ["binary64 overflow is outside the R model: finiteness is exhibited on outliers up to 1e6 and feature scales 1e-4..1e4, not proved"]
    return chk.finish(
        rule="degenerate data (duplicated rows, a constant column, two distinct points, a 1e6 outlier, all rows equal, scales 1e-4..1e4), 2-4 components with one "
             "starved, every trainer (k-means with array / seeded random / k-means|| init on NumPy and Dask, k-means-initialised GMM, GMM ML and MAP with all "
             "switch settings, i-vector with and without sigma updating), checked after every iteration; distinct = (trainer, data kind, configuration)")
