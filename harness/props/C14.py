"""C14  WCCN/whitening map covariance to identity; WCCN depends only on the partition."""
import numpy as np

from .. import coqio as cq
from .. import gen
from ..impl import da, em, hexlist

IMPORTS = "Lib.LinAlg Model.Linear Corr.CorrBase Corr.CorrLinear"
WCCN, Whitening = em.WCCN, em.Whitening


def lower_pos(W):
    return bool(np.allclose(W, np.tril(W), atol=0) and np.all(np.diag(W) > 0))


def gen_full_rank(r, N, D):
    g = gen.nprng(r)
    A = g.normal(size=(D, D)) + np.eye(D) * 2
    return g.normal(size=(N, D)) @ A + g.normal(size=D) * r.choice([0, 5, 50]) + r.choice([0.0, 0.0, 1e4, 1e6])


def run(chk):
    chk.prove()
    r = gen.rng(chk.seed, "C14")
    n_cases = 50 if chk.tier == "quick" else 1500
    wterms, cterms = [], []
    for i in range(n_cases):
        D = r.choice([1, 2, 3, 4])
        # ---------------- whitening
        N = r.choice([D + 1, D + 2, D + 5, 3 * D + 7])      # D + 1 points in general position are a full-rank data set
        X = gen_full_rank(r, N, D)
        fscale = r.choice([1.0, 1.0, 1e-5, 1e-3, 1e4])       # units of the features (a common factor: the conditioning is unchanged)
        X = X * fscale
        w = Whitening().fit(X)
        W, mu = np.asarray(w.weights), np.asarray(w.input_subtract)
        Y = np.asarray(w.transform(X))
        ctx = {"X": hexlist(X), "shape": [N, D]}
        chk.count(1, key=("whiten", D, N))
        sc = float(np.abs(X).max()) + 1
        cond = float(np.linalg.cond(np.cov(X.T).reshape(D, D)))
        tol = 1e-10 * cond
        if not lower_pos(W):
            chk.fail("whitening projection is not lower-triangular with positive diagonal", dict(ctx, W=hexlist(W)))
        if not np.allclose(Y.mean(axis=0), 0, atol=1e-9 * sc * np.abs(W).max()):
            chk.fail("whitened training data do not have zero mean", ctx)
        if not np.allclose(np.cov(Y.T).reshape(D, D), np.eye(D), atol=max(1e-8, tol)):
            chk.fail("whitened training data do not have identity sample covariance", dict(ctx, cov=hexlist(np.cov(Y.T))))
        # the pseudo-inverse variant on full-rank data whose features have widely different units (covariance condition number ~1e8):
        # every direction is real signal, the result is the same whitening
        if i % 4 == 2 and D >= 2:
            Xs = X * np.concatenate([[2e-4], np.ones(D - 1)])
            Wi = np.asarray(Whitening().fit(Xs).weights)
            wp = Whitening(pinv=True).fit(Xs)
            Yp = np.asarray(wp.transform(Xs))
            conds = float(np.linalg.cond(np.cov(Xs.T).reshape(D, D)))
            chk.count(1, key=("whiten-pinv", D))
            if not np.allclose(np.cov(Yp.T).reshape(D, D), np.eye(D), atol=max(1e-6, 1e-10 * conds)):
                chk.fail("Whitening(pinv=True) on full-rank data with widely different feature units does not give identity sample covariance",
                         {"X": hexlist(Xs), "shape": [N, D], "cov": hexlist(np.cov(Yp.T)), "pinv": True})
            elif not np.allclose(np.asarray(wp.weights), Wi, rtol=1e-5, atol=1e-9 * conds * np.abs(Wi).max()):
                chk.fail("Whitening(pinv=True) differs from Whitening() on full-rank data", {"X": hexlist(Xs), "shape": [N, D], "pinv": True})
        if i % 5 == 3:
            for lname, Xl in gen.layouts(X):
                try:
                    Wl = np.asarray(Whitening().fit(Xl).weights)
                except Exception as e:
                    chk.fail("Whitening.fit on a %s input raises %r" % (lname, e), dict(ctx, layout=lname))
                    continue
                chk.count(1, key=("layout", lname))
                if not np.allclose(Wl, W, rtol=1e-9, atol=max(1e-12, tol) * np.abs(W).max()):
                    chk.fail("Whitening differs for the same values given as %s" % lname, dict(ctx, layout=lname))
        parts = gen.random_composition(r, N, 3)
        wd = Whitening().fit(da.from_array(X, chunks=(tuple(parts), (D,))))
        Wd, mud = np.asarray(wd.weights), np.asarray(wd.input_subtract)
        if not (np.allclose(Wd, W, rtol=1e-8, atol=max(1e-9, tol) * np.abs(W).max()) and np.allclose(mud, mu, rtol=1e-10, atol=1e-10 * sc)):
            chk.fail("whitening on a Dask array (chunks %s) differs from NumPy" % (parts,), dict(ctx, chunks=list(parts)))
        if D >= 2:
            # the feature axis split into EQUAL blocks as well (single columns; halves) - Dask's own inverse refuses unequal blocks loudly
            for fch in [tuple([1] * D)] + ([(D // 2, D // 2)] if D % 2 == 0 and D > 2 else []):
                try:
                    wf = Whitening().fit(da.from_array(X, chunks=(tuple(parts), fch)))
                    Wf = np.asarray(wf.weights)
                    chk.count(1, key=("whiten, feature-axis chunks", len(fch)))
                    if not np.allclose(Wf, W, rtol=1e-8, atol=max(1e-9, tol) * np.abs(W).max()):
                        chk.fail("whitening on a Dask array with feature-axis chunks %s differs from NumPy" % (fch,), dict(ctx, chunks=[list(parts), list(fch)]))
                except Exception as e:
                    chk.fail("whitening on a Dask array with feature-axis chunks %s raises %r" % (fch, e), dict(ctx, chunks=[list(parts), list(fch)]))
        wterms.append("{| wh_D := %s; wh_x := %s; wh_rtol := %s; wh_atol := %s; wh_mu := %s; wh_w := %s |}" % (
            cq.nat(D), cq.mat(X), cq.fl(max(2.0 ** -26, tol)), cq.fl(max(1e-9, tol) * max(1.0, np.abs(W).max(), sc)), cq.vec(mu), cq.mat(W)))
        # ---------------- WCCN
        K = r.choice([1, 2, 3, 4])
        per = [r.choice([D + 2, D + 4]) for _ in range(K)]
        if K >= 2 and i % 3 == 1:
            per[r.randrange(K)] = 1                       # a class with a single sample: no scatter of its own, but it is a class
        g = gen.nprng(r)
        Xc = np.vstack([gen_full_rank(r, n, D) + g.normal(size=D) * 3 for n in per]) * fscale
        base = np.repeat(np.arange(K), per)
        perm = g.permutation(len(base))
        Xc, base = Xc[perm], base[perm]                     # unsorted labels
        kind = r.choice(["0..K-1", "shifted", "negative", "noncontiguous", "permuted ids", "64-bit ids"])
        names = {"0..K-1": list(range(K)), "shifted": [5 + k for k in range(K)], "negative": [-1 - k for k in range(K)],
                 "noncontiguous": [3 + 7 * k for k in range(K)], "permuted ids": list(g.permutation(K)),
                 "64-bit ids": [2 ** 60 + k for k in range(K)]}[kind]       # hashed subject ids: distinct integers that binary64 cannot tell apart
        y = np.array([names[b] for b in base], dtype=np.int64)
        ctxc = {"X": hexlist(Xc), "y": [int(a) for a in y], "shape": list(Xc.shape), "labels": kind}
        chk.count(1, key=("wccn", D, K, kind))
        try:
            wc = WCCN().fit(Xc, y)
        except Exception as e:
            chk.fail("WCCN.fit raises %r for %s labels" % (e, kind), ctxc)
            continue
        Wc = np.asarray(wc.weights)
        ref = np.asarray(WCCN().fit(Xc, base).weights)
        Yc = np.vstack(wc.transform(Xc))
        Sw = np.zeros((D, D))
        for k in range(K):
            Z = Yc[base == k]
            Z = Z - Z.mean(axis=0)
            Sw += Z.T @ Z
        Sx = np.zeros((D, D))
        for k in range(K):
            Z = Xc[base == k]
            Z = Z - Z.mean(axis=0)
            Sx += Z.T @ Z
        tolc = 1e-10 * float(np.linalg.cond(Sx))
        if not lower_pos(Wc):
            chk.fail("WCCN projection is not lower-triangular with positive diagonal", dict(ctxc, W=hexlist(Wc)))
        if not np.allclose(Sw / K, np.eye(D), atol=max(1e-8, tolc)):
            chk.fail("within-class scatter of the transformed data / K is not the identity (%s labels)" % kind, dict(ctxc, scatter=hexlist(Sw / K)))
        if not np.allclose(Wc, ref, rtol=1e-8, atol=max(1e-9, tolc) * np.abs(ref).max()):
            chk.fail("WCCN projection depends on the label values (%s labels vs 0..K-1 on the same partition)" % kind, ctxc)
        # the same WCCN object fitted a second time, on the same partition with the classes RENAMED: the projection of a fresh object
        if i % 3 == 0:
            wr_ = WCCN()
            wr_.fit(Xc, y)
            y_ren = np.array([int(a) + 1000 for a in base], dtype=np.int64)
            Wr2 = np.asarray(wr_.fit(Xc, y_ren).weights)
            chk.count(1, key=("wccn, object re-used with other labels", K))
            if not np.allclose(Wr2, ref, rtol=1e-8, atol=max(1e-9, tolc) * np.abs(ref).max()):
                chk.fail("a WCCN object fitted a second time on the same partition with renamed classes gives another projection than a fresh object", dict(ctxc, second_labels=[int(a) for a in y_ren]))
        # the pseudo-inverse variant on full-rank data is the same projection (K >= 2 classes included)
        if i % 3 == 2:
            try:
                Wpi = np.asarray(WCCN(pinv=True).fit(Xc, y).weights)
                chk.count(1, key=("wccn-pinv", K))
                if not np.allclose(Wpi, Wc, rtol=1e-6, atol=max(1e-9, tolc) * np.abs(Wc).max()):
                    chk.fail("WCCN(pinv=True) differs from WCCN() on full-rank data (K = %d classes)" % K, dict(ctxc, pinv=True, got=hexlist(Wpi), want=hexlist(Wc)))
            except Exception as e:
                chk.fail("WCCN(pinv=True).fit raises %r" % (e,), dict(ctxc, pinv=True))
        # the labels as another kind of sequence / integer type
        if i % 4 == 1:
            for lname, yl in (("list", [int(q) for q in y]), ("tuple", tuple(int(q) for q in y)), ("int8", y.astype(np.int8)), ("int32", y.astype(np.int32))):
                try:
                    Wl = np.asarray(WCCN().fit(Xc, yl).weights)
                except Exception as e:
                    chk.fail("WCCN.fit with labels given as %s raises %r" % (lname, e), dict(ctxc, labels_as=lname))
                    continue
                chk.count(1, key=("label-container", lname))
                if not np.allclose(Wl, Wc, rtol=1e-9, atol=max(1e-12, tolc) * np.abs(Wc).max()):
                    chk.fail("WCCN differs when the same labels are given as %s" % lname, dict(ctxc, labels_as=lname))
        # sample order
        p2 = g.permutation(len(y))
        Wp = np.asarray(WCCN().fit(Xc[p2], y[p2]).weights)
        if not np.allclose(Wp, Wc, rtol=1e-8, atol=max(1e-9, tolc) * np.abs(Wc).max()):
            chk.fail("WCCN projection depends on the order of the samples", ctxc)
        partsc = gen.random_composition(r, len(y), 3)
        try:
            Wdk = np.asarray(WCCN().fit(da.from_array(Xc, chunks=(tuple(partsc), (D,))), y).weights)
            if not np.allclose(Wdk, Wc, rtol=1e-8, atol=max(1e-9, tolc) * np.abs(Wc).max()):
                chk.fail("WCCN on a Dask array (chunks %s) differs from NumPy" % (partsc,), dict(ctxc, chunks=list(partsc)))
        except Exception as e:
            chk.fail("WCCN.fit on a Dask array raises %r" % (e,), dict(ctxc, chunks=list(partsc)))
        # correspondence: the label set is enumerated in Python's set order; labels are coded 0..K-1 in that order
        order = list(set(y.tolist()))
        code = {lab: j for j, lab in enumerate(order)}
        cterms.append("{| wc_D := %s; wc_order := %s; wc_y := %s; wc_x := %s; wc_rtol := %s; wc_atol := %s; wc_w := %s |}" % (
            cq.nat(D), cq.natlist(range(K)), cq.natlist([code[a] for a in y.tolist()]), cq.mat(Xc),
            cq.fl(max(2.0 ** -26, tolc)), cq.fl(max(1e-9, tolc) * max(1.0, np.abs(Wc).max())), cq.mat(Wc)))
        if i < 2:
            chk.sample({"D": D, "K": K, "labels": kind, "y": [int(a) for a in y], "W": hexlist(Wc)})
    bad, info = cq.run_cases("C14w", IMPORTS, "wh_case", "wh_check", wterms, shard=100)
    chk.correspondence("Whitening.fit ~ NF.whiten_fit (Gauss-Jordan inverse, Cholesky-Banachiewicz)", len(wterms), bad, info)
    bad, info = cq.run_cases("C14c", IMPORTS, "wc_case", "wc_check", cterms, shard=100)
    chk.correspondence("WCCN.fit ~ NF.wccn_fit on the samples grouped by label", len(cterms), bad, info)
    return chk.finish(
        rule="full-rank data D<=4; whitening N = D+2..3D+7; WCCN K<=4 classes of D+2/D+4 samples (every third case with a single-sample class), Whitening(pinv=True) on ill-scaled full-rank data, rows shuffled, labels 0..K-1 / shifted / negative / "
             "non-contiguous / permuted ids; NumPy and Dask row chunks; tolerances scaled by the condition number; distinct = (whiten,D,N) | (wccn,D,K,label kind)")
