"""C15  Training is equivariant, scoring invariant, under affine feature rescaling/shift."""
import copy
import itertools

import numpy as np

from .. import fa
from .. import gen
from .. import gmmtrain as gt
from .. import iv
from .. import kmtrain as kt
from ..impl import GMMMachine, GMMStats, KMeansMachine, em, hexlist, make_gmm

D2 = "D2-map-variance-unsquared-prior-mean"
D14 = "D14-relative-loglik-stopping-rule-depends-on-feature-units"
D15 = "D15-count-floor-makes-a-starved-components-mean-origin-dependent"
linear_scoring = em.linear_scoring
SWITCHES = list(itertools.product([True, False], repeat=3))


def close(a, b, rtol=1e-7, atol=1e-9):
    a, b = np.asarray(a, dtype=float), np.asarray(b, dtype=float)
    return a.shape == b.shape and np.allclose(a, b, rtol=rtol, atol=atol * (1 + np.abs(b).max()))


def tr_stats(s, a, b):
    """Statistics of the transformed data under the transformed UBM (responsibilities are invariant)."""
    t = GMMStats(s.n_gaussians, s.n_features)
    n = np.asarray(s.n)
    t.t, t.n, t.log_likelihood = s.t, n.copy(), s.log_likelihood - s.t * float(np.sum(np.log(np.abs(a))))
    t.sum_px = a * np.asarray(s.sum_px) + b * n[:, None]
    t.sum_pxx = a * a * np.asarray(s.sum_pxx) + 2 * a * b * np.asarray(s.sum_px) + b * b * n[:, None]
    return t


def run(chk):
    chk.prove()
    r = gen.rng(chk.seed, "C15")
    n_cases = 24 if chk.tier == "quick" else 1200
    eps = float(np.finfo(float).eps)
    # ---- a numerically starved component (known finding D15), exhibited on every run: two components, the second one 1e3 sigma away
    #      from every sample; under a pure shift of the features the first component follows, the starved one does not
    gd = gen.nprng(r)
    Xd = gd.normal(size=(8, 2))
    mud, vard, wd = np.array([[0.0, 0.0], [1e3, 1e3]]), np.ones((2, 2)), np.array([0.5, 0.5])
    bd = np.array([5.0, -7.0])
    cfgd = dict(w=wd, mu=mud, var=vard, thr=None, sw=(True, True, True), eps=eps, cap=1, cthr=None)
    md1, _ = gt.build_machine(cfgd)
    md2, _ = gt.build_machine(dict(cfgd, mu=mud + bd))
    gt.run_fit(md1, Xd)
    gt.run_fit(md2, Xd + bd)
    chk.count(1, key=("starved-component-shift",))
    if not close(np.asarray(md2.means)[0], np.asarray(md1.means)[0] + bd, rtol=1e-9):
        chk.fail("ML training is not shift-equivariant even for the component that has all the evidence", {"X": hexlist(Xd), "b": hexlist(bd), "mu": hexlist(mud)})
    elif not close(np.asarray(md2.means)[1], np.asarray(md1.means)[1] + bd, rtol=1e-9):
        chk.fail("ML training with a numerically starved component (count below the update threshold) is not shift-equivariant: its mean becomes sum_px / threshold",
                 {"X": hexlist(Xd), "b": hexlist(bd), "mu": hexlist(mud), "means": hexlist(md1.means), "means_shifted_run": hexlist(md2.means)}, sig=D15)
    # ---- MAP adaptation (Reynolds and fixed-ratio) with a raised count threshold and a component whose count lies below it (0 < n < threshold):
    #      that component keeps the prior mean, which follows a shift of the features like everything else
    for j in range(3 if chk.tier == "quick" else 60):
        g = gen.nprng(r)
        Dm = r.choice([1, 2])
        Xm = g.normal(size=(12, Dm))
        wm = np.array([0.999, 0.001])
        mum = np.vstack([np.zeros(Dm), 0.3 * np.ones(Dm)])
        varm = np.ones((2, Dm))
        bm = g.uniform(20.0, 200.0, size=Dm) * g.choice([-1.0, 1.0], size=Dm)
        thr_n = r.choice([0.5, 2.0])
        rel_m = r.choice([4.0, 16.0, None])
        out = []
        for shift in (np.zeros(Dm), bm):
            mm, _ = gt.build_machine(dict(w=None, mu=None, var=None, thr=1e-6 * np.ones(Dm), sw=(True, False, False), eps=thr_n, cap=1, cthr=None,
                                          map=dict(relevance=rel_m, alpha=0.4, prior=(wm, mum + shift, varm, 1e-6 * np.ones(Dm)))))
            st_ = mm.ubm.acc_stats(Xm + shift)
            gt.run_fit(mm, Xm + shift)
            out.append((np.asarray(mm.means, dtype=float), np.asarray(st_.n, dtype=float)))
        chk.count(1, key=("map-count-below-raised-threshold", rel_m is not None))
        n_small = float(out[0][1][1])
        if 0.0 < n_small < thr_n and not close(out[1][0], out[0][0] + bm, rtol=1e-9, atol=1e-9):
            chk.fail("MAP mean adaptation (%s) with mean_var_update_threshold=%g: a component with count %.3g below the threshold does not follow a shift of the features (its mean moves by %s instead of %s)"
                     % ("Reynolds, relevance %g" % rel_m if rel_m is not None else "fixed ratio 0.4", thr_n, n_small, (out[1][0] - out[0][0])[1].tolist(), bm.tolist()),
                     {"X": hexlist(Xm), "b": hexlist(bm), "prior_weights": hexlist(wm), "prior_means": hexlist(mum), "threshold": thr_n, "relevance": rel_m})
    # ---- k-means under the default stopping threshold in very small units (exact power-of-two rescaling: the trajectories are the same bit for bit)
    for j in range(3 if chk.tier == "quick" else 40):
        g = gen.nprng(r)
        Xs = np.vstack([g.normal(size=(15, 2)) * 1.5 + c_ for c_ in ([0.0, 0.0], [3.0, 0.5], [1.0, 3.0])])
        init_s = Xs[g.choice(len(Xs), size=3, replace=False)]
        e1, ne1, _ = kt.run_kfit(init_s, Xs, None, cap=30, cthr=1e-5)
        pw = 2.0 ** -r.choice([28, 35, 45])
        e2, ne2, _ = kt.run_kfit(init_s * pw, Xs * pw, None, cap=30, cthr=1e-5)
        chk.count(1, key=("kmeans-default-threshold-tiny-units", ne1))
        if not (ne1 == ne2 and close(np.asarray(e2.centroids_) / pw, np.asarray(e1.centroids_), rtol=1e-9, atol=1e-12)):
            chk.fail("k-means with the default stopping threshold: the data in units 2**%d times larger (values scaled by %.3g) stop after %d iterations instead of %d and give other centroids"
                     % (int(round(-np.log2(pw))), pw, ne2, ne1), {"X": hexlist(Xs), "init": hexlist(init_s), "scale": pw, "iterations": [ne1, ne2]})
    # ---- single-precision features on a grid (multiples of 2**-6) shifted by whole numbers of a few thousand: both data sets are exact in
    #      float32, so the ML-trained model follows the shift exactly as for float64 data (the storage type of the features is not an observable)
    for j in range(3 if chk.tier == "quick" else 40):
        g = gen.nprng(r)
        Xg_ = np.round(np.vstack([g.normal(size=(8, 2)) * 2.0 - 3.0, g.normal(size=(8, 2)) * 2.0 + 3.0]) * 64.0) / 64.0
        bg_ = np.array([float(r.randint(2000, 4000)), -float(r.randint(2000, 4000))])
        wg_, mug_, varg_ = np.array([0.5, 0.5]), np.array([[-3.0, -3.0], [3.0, 3.0]]), np.ones((2, 2)) * 4.0
        res_ = []
        for shift_ in (np.zeros(2), bg_):
            mm_, _ = gt.build_machine(dict(w=wg_, mu=mug_ + shift_, var=varg_, thr=1e-6 * np.ones(2), sw=(True, True, True), eps=eps, cap=2, cthr=None))
            gt.run_fit(mm_, (Xg_ + shift_).astype(np.float32))
            res_.append((np.asarray(mm_.means, dtype=float), np.asarray(mm_.variances, dtype=float), np.asarray(mm_.weights, dtype=float)))
        chk.count(1, key=("float32 features, exact shift",))
        if not (close(res_[1][0], res_[0][0] + bg_, rtol=1e-7) and close(res_[1][1], res_[0][1], rtol=1e-5, atol=1e-6) and close(res_[1][2], res_[0][2], rtol=1e-6)):
            chk.fail("ML training on float32 features shifted by %s (both data sets exactly representable) does not follow the shift: variances %s vs %s, weights %s vs %s"
                     % (bg_.tolist(), res_[1][1].tolist(), res_[0][1].tolist(), res_[1][2].tolist(), res_[0][2].tolist()),
                     {"X": hexlist(Xg_), "b": hexlist(bg_), "dtype": "float32", "mu": hexlist(mug_), "var": hexlist(varg_)})
    for i in range(n_cases):
        w, mu, var, s, X = gt.gen_training(r, N=r.choice([9, 14]))
        C, D = mu.shape
        g = gen.nprng(r)
        a = g.choice([-1.0, 1.0], size=D) * 10.0 ** g.uniform(-3, 3, size=D)      # negative and widely different magnitudes
        # shifts up to 100 standard deviations of the rescaled feature (a shift that dwarfs the spread by more makes the
        # TRANSFORMED problem ill-conditioned in binary64: sum x^2/n - mean^2 cancels; that is rounding, not equivariance)
        b = g.normal(size=D) * np.abs(a) * s * 10.0 ** g.uniform(-1, 2, size=D)
        Xt = a * X + b
        ctx = {"a": hexlist(a), "b": hexlist(b), "X": hexlist(X), "w": hexlist(w), "mu": hexlist(mu), "var": hexlist(var), "shape": [C, D]}
        thr = 1e-6 * s ** 2                     # per-feature floors; they transform like variances (a^2)
        thrt = a * a * thr
        m = make_gmm(w, mu, var, thr=thr)
        mt = make_gmm(w, a * mu + b, a * a * var, thr=thrt)
        shift = float(np.sum(np.log(np.abs(a))))
        chk.count(1, key=("ll", C, D))
        # log-likelihoods shift by -sum log|a|; responsibilities / counts invariant
        if not close(mt.log_likelihood(Xt), np.asarray(m.log_likelihood(X)) - shift, rtol=1e-9, atol=1e-9):
            chk.fail("log-likelihoods do not shift by -sum(log|a|) under feature rescaling", ctx)
        st, stt = m.acc_stats(X), mt.acc_stats(Xt)
        want = tr_stats(st, a, b)
        if not (close(stt.n, want.n) and close(stt.sum_px, want.sum_px) and close(stt.sum_pxx, want.sum_pxx, rtol=1e-6)):
            chk.fail("statistics are not equivariant under feature rescaling", ctx)
        # ---- many features in small (or large) units: every single variance is ordinary, their product is outside the binary64 range
        if i % 6 == 5:
            Dh = r.choice([64, 150])
            wh, muh, varh, sh = gen.gen_gmm(r, 2, Dh, "unit")
            Xh = gen.sample_from(r, wh, muh, varh, 3)
            gh = gen.nprng(r)
            ah = gh.choice([-1.0, 1.0], size=Dh) * 10.0 ** (r.choice([-1, 1]) * gh.uniform(3, 5, size=Dh))
            bh = gh.normal(size=Dh) * np.abs(ah) * sh
            mh, mht = make_gmm(wh, muh, varh), make_gmm(wh, ah * muh + bh, ah * ah * varh)
            shift_h = float(np.sum(np.log(np.abs(ah))))
            l1, l2 = np.asarray(mh.log_likelihood(Xh)), np.asarray(mht.log_likelihood(ah * Xh + bh))
            chk.count(1, key=("ll-many-features", Dh))
            if not (np.all(np.isfinite(l2)) and close(l2, l1 - shift_h, rtol=1e-9, atol=1e-7)):
                chk.fail("with %d features rescaled by |a| ~ 1e%+d the log-likelihoods do not shift by -sum(log|a|) (got %s, want %s)" % (Dh, int(np.sign(shift_h)) * 4, l2.tolist(), (l1 - shift_h).tolist()),
                         {"a": hexlist(ah), "b": hexlist(bh), "X": hexlist(Xh), "w": hexlist(wh), "mu": hexlist(muh), "var": hexlist(varh), "shape": [2, Dh]})
            s1h, s2h = mh.acc_stats(Xh), mht.acc_stats(ah * Xh + bh)
            if not close(s2h.n, s1h.n, rtol=1e-7):
                chk.fail("with %d rescaled features the responsibilities / counts are not invariant" % Dh, {"a": hexlist(ah), "X": hexlist(Xh), "shape": [2, Dh]})
        # ---- ML / MAP training, all switch settings
        sw = SWITCHES[i % 8]
        for trainer in ("ml", "map"):
            K = r.choice([1, 2, 3])
            cfg = dict(w=w, mu=mu, var=var, thr=thr, sw=sw, eps=eps, cap=K, cthr=None)
            cfgt = dict(w=w, mu=a * mu + b, var=a * a * var, thr=thrt, sw=sw, eps=eps, cap=K, cthr=None)
            if trainer == "map":
                rel = r.choice([4.0, 0.5, None])
                cfg = dict(cfg, w=None, mu=None, var=None, map=dict(relevance=rel, alpha=0.4, prior=(w, mu, var, thr)))
                cfgt = dict(cfgt, w=None, mu=None, var=None, map=dict(relevance=rel, alpha=0.4, prior=(w, a * mu + b, a * a * var, thrt)))
            m1, _ = gt.build_machine(cfg)
            m2, _ = gt.build_machine(cfgt)
            s1, l1, _ = gt.run_fit(m1, X)
            s2, l2, _ = gt.run_fit(m2, Xt)
            chk.count(1, key=(trainer, sw))
            ok = (close(m2.means, a * np.asarray(m1.means) + b, rtol=1e-6) and close(m2.variances, a * a * np.asarray(m1.variances), rtol=1e-5)
                  and close(m2.weights, m1.weights, rtol=1e-7) and s1 == s2)
            if not ok:
                if trainer == "map" and sw[1]:
                    # the known defect only touches the variance blend: after ONE iteration means and weights must still be equivariant
                    o1, _ = gt.build_machine(dict(cfg, cap=1))
                    o2, _ = gt.build_machine(dict(cfgt, cap=1))
                    gt.run_fit(o1, X)
                    gt.run_fit(o2, Xt)
                    if close(o2.means, a * np.asarray(o1.means) + b, rtol=1e-6) and close(o2.weights, o1.weights, rtol=1e-7):
                        chk.fail("MAP training with variance adaptation is not equivariant under feature rescaling (un-squared prior mean in the variance blend)",
                                 dict(ctx, switches=list(sw), trainer=trainer), sig=D2)
                    else:
                        chk.fail("MAP means/weights after one iteration are not equivariant under feature rescaling", dict(ctx, switches=list(sw), trainer=trainer))
                else:
                    # explained by the count floor?  A component whose total responsibility is below mean_var_update_threshold (numerically starved)
                    # gets mean = sum_px / threshold ~ 0 whatever the origin of the features: step both runs and look at the counts
                    starved = False
                    if trainer == "ml":
                        q1, _ = gt.build_machine(dict(cfg, cap=1))
                        q2, _ = gt.build_machine(dict(cfgt, cap=1))
                        for _k in range(K):
                            starved = starved or bool(np.any(np.asarray(q1.acc_stats(X).n) < eps)) or bool(np.any(np.asarray(q2.acc_stats(Xt).n) < eps))
                            gt.run_fit(q1, X)
                            gt.run_fit(q2, Xt)
                    if starved:
                        chk.fail("ML training with a numerically starved component (count below the update threshold) is not shift-equivariant: its mean becomes sum_px / threshold",
                                 dict(ctx, switches=list(sw), trainer=trainer, iterations=K), sig=D15)
                    else:
                        chk.fail("%s training (switches %s, %d iterations) is not equivariant under feature rescaling" % (trainer.upper(), sw, K),
                                 dict(ctx, switches=list(sw), trainer=trainer, iterations=K))
        # ---- threshold-stopped ML training: the stopping iteration must not depend on the units either
        if C >= 2 and i % 2 == 0:
            swf = (True, True, True)
            capL = 10
            base = dict(w=w, mu=mu, var=var, thr=thr, sw=swf, eps=eps, cap=capL, cthr=None)
            baset = dict(w=w, mu=a * mu + b, var=a * a * var, thr=thrt, sw=swf, eps=eps, cap=capL, cthr=None)
            p1, _ = gt.build_machine(base)
            _, L1, _ = gt.run_fit(p1, X)
            # relative changes of this run and the ones the rescaled run will see (its log-likelihoods are L1 - shift)
            rc1 = [abs((L1[k - 1] - L1[k]) / L1[k - 1]) if L1[k - 1] != 0 else np.inf for k in range(1, len(L1))]
            rc2 = [abs((L1[k - 1] - L1[k]) / (L1[k - 1] - shift)) if L1[k - 1] != shift else np.inf for k in range(1, len(L1))]
            placed = None
            for k in range(1, len(rc1) - 1):               # stop at iteration k+1 >= 2 of exactly one of the two runs
                lo, hi = min(rc1[k - 0], rc2[k - 0]), max(rc1[k - 0], rc2[k - 0])
                if not (np.isfinite(lo) and np.isfinite(hi)) or lo <= 0 or hi / lo < 1.5:
                    continue
                th = float(np.sqrt(lo * hi))
                if all(x > th * 1.2 for x in rc1[:k]) and all(x > th * 1.2 for x in rc2[:k]):
                    placed = (k + 1, th)
                    break
            if placed is not None:
                kstop, th = placed
                q1, _ = gt.build_machine(dict(base, cthr=th))
                q2, _ = gt.build_machine(dict(baset, cthr=th))
                n1, H1, _ = gt.run_fit(q1, X)
                n2, H2, _ = gt.run_fit(q2, Xt)
                chk.count(1, key=("threshold-stopped", n1 == n2))
                same = (n1 == n2 and close(q2.means, a * np.asarray(q1.means) + b, rtol=1e-6) and close(q2.variances, a * a * np.asarray(q1.variances), rtol=1e-5)
                        and close(q2.weights, q1.weights, rtol=1e-7))
                if not same:
                    # explained by the stopping rule alone?  (i) iteration by iteration the two runs ARE equivariant (reported values differ by the constant
                    # shift on the common prefix), (ii) each run stopped exactly where the relative-change rule puts it on ITS OWN reported values
                    def own_stop(H, n):
                        for k in range(1, len(H)):
                            if abs((H[k - 1] - H[k]) / H[k - 1]) <= th:
                                return k + 1 == n and len(H) == n
                        return n == capL and len(H) == capL
                    mlen = min(len(H1), len(H2))
                    prefix = np.allclose(np.asarray(H2[:mlen]), np.asarray(H1[:mlen]) - shift, rtol=1e-7, atol=1e-7)
                    info = dict(ctx, threshold=th, iterations=[n1, n2], reported=[H1, H2], shift=shift)
                    if n1 != n2 and prefix and own_stop(H1, n1) and own_stop(H2, n2):
                        chk.fail("threshold-stopped ML training stops at a different iteration after a change of feature units: the relative change of the "
                                 "average log-likelihood is not invariant under the shift -sum(log|a|) of the log-likelihood", info, sig=D14)
                    else:
                        chk.fail("threshold-stopped ML training (threshold %r) is not equivariant under feature rescaling: iterations %d vs %d" % (th, n1, n2), info)
        # ---- linear scores invariant
        models = np.asarray(mu)[None] + g.normal(size=(2, C, D)) * s
        off = g.normal(size=(C, D)) * s * 0.2
        sc1 = linear_scoring(models, m, [st], off, True)
        sc2 = linear_scoring(a * models + b, mt, [stt], a * off, True)
        chk.count(1, key=("score",))
        if not close(sc1, sc2, rtol=1e-6, atol=1e-7):
            chk.fail("linear scores change under feature rescaling", ctx)
        # ... also when one feature is expressed in very small units (its variances fall below 1e-16; the floors are transformed along)
        if i % 4 == 1:
            a9 = a.copy()
            a9[0] = np.sign(a[0]) * 1e-9
            m9 = make_gmm(w, a9 * mu, a9 * a9 * var, thr=a9 * a9 * thr)
            st9 = tr_stats(st, a9, np.zeros(D))
            sc9 = linear_scoring(a9 * models, m9, [st9], a9 * off, True)
            chk.count(1, key=("score-tiny-units",))
            if not close(sc1, sc9, rtol=1e-6, atol=1e-7):
                chk.fail("linear scores change when one feature is expressed in units 1e9 times larger (variance below 1e-16, floors transformed along)",
                         dict(ctx, a=hexlist(a9), b=hexlist(np.zeros(D))))
        # ---- ISV / JFA: factors and scores invariant, client mean follows the features
        if i % 3 == 0:
            # a well-conditioned (unit-scale) UBM for the factor-analysis part; the transformed side carries the scales
            ubm, _su = fa.gen_ubm(r, C=C, D=D)
            ubmt = make_gmm(np.asarray(ubm.weights), a * np.asarray(ubm.means) + b, a * a * np.asarray(ubm.variances))
            stats = fa.gen_stats(r, ubm, 3, frac=False)
            statst = [tr_stats(q, a, b) for q in stats]
            A = np.tile(a, C)
            for kind in ("isv", "jfa"):
                mach = fa.make_machine(kind, ubm, 2, 2, r=r, dscale=0.7)
                macht = fa.make_machine(kind, ubmt, 2, 2, U=A[:, None] * np.asarray(mach.U), V=(A[:, None] * np.asarray(mach.V)) if kind == "jfa" else None,
                                        Dv=np.abs(A) * np.asarray(mach.D))
                mach.enroll_iterations = macht.enroll_iterations = 3
                e1, e2 = mach.enroll(stats), macht.enroll(statst)
                chk.count(1, key=(kind,))
                if kind == "isv":
                    z1, z2 = np.asarray(e1)[0], np.asarray(e2)[0]
                    okf = close(z2, np.sign(A) * z1, rtol=1e-6)
                    cm1, cm2 = ubm.means.flatten() + mach.D * z1, ubmt.means.flatten() + macht.D * z2
                    mdl1, mdl2 = z1, z2
                else:
                    (y1, z1), (y2, z2) = e1, e2
                    okf = close(y2, y1, rtol=1e-6) and close(z2, np.sign(A) * np.asarray(z1), rtol=1e-6)
                    cm1 = ubm.means.flatten() + mach.V @ y1 + mach.D * z1
                    cm2 = ubmt.means.flatten() + macht.V @ y2 + macht.D * z2
                    mdl1, mdl2 = (y1, z1), (y2, z2)
                if not okf:
                    chk.fail("%s latent factors are not invariant under feature rescaling" % kind.upper(), dict(ctx, kind=kind))
                if not close(cm2, A * cm1 + np.tile(b, C), rtol=1e-6):
                    chk.fail("%s enrolled client mean does not follow the features" % kind.upper(), dict(ctx, kind=kind))
                x1, x2 = mach.estimate_x(stats[:2]), macht.estimate_x(statst[:2])
                if not close(x2, x1, rtol=1e-6):
                    chk.fail("%s channel factors are not invariant under feature rescaling" % kind.upper(), dict(ctx, kind=kind))
                if not close(macht.score(mdl2, statst[:2]), mach.score(mdl1, stats[:2]), rtol=1e-6, atol=1e-7):
                    chk.fail("%s scores change under feature rescaling" % kind.upper(), dict(ctx, kind=kind))
            # ---- i-vectors invariant
            g2 = gen.nprng(r)
            T = g2.normal(size=(C, D, 2))
            iv1 = iv.with_params(ubm, T, ubm.variances, 2)
            iv2 = iv.with_params(ubmt, a[None, :, None] * T, ubmt.variances, 2)
            chk.count(1, key=("ivector",))
            if not close(iv2.project(statst[0]), iv1.project(stats[0]), rtol=1e-6):
                chk.fail("i-vectors change under feature rescaling", ctx)
        # ---- k-means: rotation, uniform scaling, translation
        init, Xk = kt.gen_clusters(r, K=r.choice([2, 3]), D=r.choice([2, 3]), N=11)
        Dk = Xk.shape[1]
        if kt.margin_ok(init, Xk, rel=1e-4):
            Q, _ = np.linalg.qr(gen.nprng(r).normal(size=(Dk, Dk)))
            big = r.choice([0.0, 1e4, 1e8])
            # with a huge common offset the transformed INPUT is itself rounded at 1e-8 absolute: keep the spread >= 1 and loosen the tolerance
            sc = 10.0 ** (r.uniform(0, 2) if big else r.uniform(-2, 2))
            t = gen.nprng(r).normal(size=Dk) * 10 + big
            ktol = 1e-5 if big else 1e-7
            f = lambda Z: sc * (Z @ Q.T) + t
            k1, n1, _ = kt.run_kfit(init, Xk, None, cap=3)
            k2, n2, _ = kt.run_kfit(f(init), f(Xk), None, cap=3)
            chk.count(1, key=("kmeans",))
            if not (close(k2.centroids_, f(np.asarray(k1.centroids_)), rtol=ktol) and n1 == n2
                    and close(k2.average_min_distance, sc * sc * k1.average_min_distance, rtol=ktol, atol=ktol)
                    and np.array_equal(k2.predict(f(Xk)), k1.predict(Xk))):
                chk.fail("k-means centroids do not follow a rotation + uniform scaling + translation of the data", {"X": hexlist(Xk), "init": hexlist(init), "scale": sc})
            # initial centroids given as an INTEGER array (rounded values) with real-valued data: trained like the same values as floats
            try:
                init_i = np.rint(np.asarray(init) * 4).astype(np.int64)
                Xi4 = np.asarray(Xk) * 4.0
                ki_, ni_, _ = kt.run_kfit(init_i, Xi4, None, cap=3)
                kf_, nf_, _ = kt.run_kfit(init_i.astype(float), Xi4, None, cap=3)
                chk.count(1, key=("kmeans, integer-typed start",))
                if not (ni_ == nf_ and close(ki_.centroids_, kf_.centroids_, rtol=1e-10)):
                    chk.fail("k-means started from integer-typed centroids %s does not train like the same start given as floats (centroids %s vs %s)"
                             % (init_i.tolist(), np.asarray(ki_.centroids_).tolist(), np.asarray(kf_.centroids_).tolist()), {"X": hexlist(Xi4), "init_int": init_i.tolist()})
            except Exception as e:
                chk.fail("k-means with an integer-typed initial centroid array raises %r" % (e,), {"X": hexlist(Xk)})
            # the same k-means OBJECT re-used for the transformed data (new explicit start assigned): as a fresh object - nothing in the old units survives
            try:
                kr_ = KMeansMachine(n_clusters=len(init), init_method=np.array(init), max_iter=3, convergence_threshold=None)
                kr_.fit(Xk)
                kr_.init_method = np.array(f(init))
                kr_.fit(f(Xk))
                chk.count(1, key=("kmeans, same object re-used",))
                if not close(kr_.centroids_, k2.centroids_, rtol=ktol, atol=ktol * (1 + float(np.abs(np.asarray(k2.centroids_)).max()))):
                    chk.fail("a k-means object trained on the data and then (with the transformed start assigned) on the rotated, scaled (%.3g) and translated data does not give the centroids of a fresh object"
                             % sc, {"X": hexlist(Xk), "init": hexlist(init), "scale": sc, "offset": float(big)})
            except Exception as e:
                chk.fail("re-using a k-means object raises %r" % (e,), {"X": hexlist(Xk)})
            # the same observables through Dask input (transform / predict of the transformed samples held in a Dask array)
            try:
                import dask.array as _da
                dXt = _da.from_array(f(Xk), chunks=((5, len(Xk) - 5), (Dk,)))
                td = np.asarray(k2.transform(dXt))
                ld = np.asarray(k2.predict(dXt))
                chk.count(1, key=("kmeans, Dask transform/predict",))
                t1 = np.asarray(k1.transform(Xk))
                if not (close(td, sc * sc * t1, rtol=max(ktol, 1e-6), atol=max(ktol, 1e-6) * sc * sc * (1 + float(t1.max()))) and np.array_equal(ld, np.asarray(k1.predict(Xk)))):
                    chk.fail("k-means transform / predict of the rotated, scaled (%.3g) and translated samples held in a Dask array do not follow the transformation (offset %.3g)"
                             % (sc, big), {"X": hexlist(Xk), "init": hexlist(init), "scale": sc, "offset": float(big)})
            except Exception as e:
                chk.fail("k-means transform / predict on a Dask array raise %r" % (e,), {"X": hexlist(Xk), "scale": sc})
            # the same with a repeated initial centroid (two clusters start at the same point; the second one stays empty)
            if i % 3 == 1 and len(init) >= 2:
                init_d = np.array(init)
                init_d[1] = init_d[0]
                sc2 = 10.0 ** r.uniform(-7, 1)
                f2 = lambda Z: sc2 * (Z @ Q.T) + t * sc2
                d1, nd1, _ = kt.run_kfit(init_d, Xk, None, cap=2)
                d2, nd2, _ = kt.run_kfit(f2(init_d), f2(Xk), None, cap=2)
                chk.count(1, key=("kmeans-duplicate-init",))
                if not (close(d2.centroids_, f2(np.asarray(d1.centroids_)), rtol=1e-6 if not big else 1e-4) and nd1 == nd2):
                    chk.fail("k-means started from a repeated initial centroid does not follow a rotation + uniform scaling (%.3g) + translation of the data" % sc2,
                             {"X": hexlist(Xk), "init": hexlist(init_d), "scale": sc2})
        # ---- a feature that is constant within the data (a dead / quantised channel): its variance is rounding noise below the floor in any units
        if i % 4 == 3:
            wq, muq, varq, sq, Xq = gt.gen_training(r, C=2, D=2, N=12, scale="unit")
            Xq = np.array(Xq)
            Xq[:, 0] = 0.0
            muq = np.array(muq)
            muq[:, 0] = 0.0
            thrq = 1e-6 * np.ones(2)
            for bq in (0.3, 0.7, 1.1, 2.9):
                aq, bqv = np.array([1.0, 1.0]), np.array([bq, 0.0])
                cq_ = dict(w=wq, mu=muq, var=varq, thr=thrq, sw=(True, True, True), eps=eps, cap=2, cthr=None)
                cqt = dict(cq_, mu=muq + bqv)
                e1, _ = gt.build_machine(cq_)
                e2, _ = gt.build_machine(cqt)
                gt.run_fit(e1, Xq)
                gt.run_fit(e2, Xq + bqv)
                chk.count(1, key=("constant-feature-shift",))
                if np.any(np.asarray(e1.acc_stats(Xq).n) < eps):
                    continue
                if not (close(e2.means, np.asarray(e1.means) + bqv, rtol=1e-6) and close(e2.variances, e1.variances, rtol=1e-5) and close(e2.weights, e1.weights, rtol=1e-7)):
                    chk.fail("ML training with a feature that is constant in the data is not equivariant under a shift of that feature by %g (variances %s vs %s)"
                             % (bq, np.asarray(e2.variances).tolist(), np.asarray(e1.variances).tolist()),
                             {"X": hexlist(Xq), "b": hexlist(bqv), "w": hexlist(wq), "mu": hexlist(muq), "var": hexlist(varq), "floor": 1e-6})
                    break
        if i < 2:
            chk.sample(ctx)
    chk.notes["correspondence"] = ("the transformed and untransformed runs both go through the implementation; the model functions the theorems are about are tied to "
                                   "the code by the correspondence runs of C01-C03, C05, C06, C08, C10 and C20")
    return chk.finish(
        rule="per-feature scales of random sign and magnitude 1e-3..1e3 with shifts up to 1e2; likelihood shift, statistics, ML and MAP training with all 8 "
             "switch settings and 1-3 iterations, linear scores with channel offsets, ISV/JFA enrolment / channel factors / scores, i-vectors; k-means under "
             "random rotation + uniform scale + translation; distinct = (observable, configuration)",
        assumptions=["D2 (MAP variance blend) is a known finding shared with C05: only that signature is downgraded"])
