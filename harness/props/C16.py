"""C16  A trained model is a function of the labelled sample multiset and the seed only."""
import copy

import dask.bag
import numpy as np

from .. import fa
from .. import gen
from .. import gmmtrain as gt
from .. import kmtrain as kt
from ..impl import GMMMachine, KMeansMachine, da, em, hexlist, make_gmm

D12 = "D12-seeded-string-init-depends-on-row-order"
WCCN = em.WCCN


def close(a, b, rtol=1e-8, atol=1e-10):
    a, b = np.asarray(a, dtype=float), np.asarray(b, dtype=float)
    return a.shape == b.shape and np.allclose(a, b, rtol=rtol, atol=atol * (1 + np.abs(b).max()))


def same(a, b):
    a, b = np.asarray(a), np.asarray(b)
    return a.shape == b.shape and a.tobytes() == b.tobytes()


def run(chk):
    chk.prove()
    r = gen.rng(chk.seed, "C16")
    rounds = 8 if chk.tier == "quick" else 60
    for rd in range(rounds):
        g = gen.nprng(r)
        init, X = kt.gen_clusters(r, K=r.choice([2, 3]), D=2, N=14)
        K = len(init)
        seed = r.randint(0, 10 ** 6)
        ubm, su = fa.gen_ubm(r, C=2, D=2)
        stats = fa.gen_stats(r, ubm, 6)
        # classes of unequal size whose ids do not first appear in ascending order
        y = np.array([[1, 0, 2, 0, 0, 2], [0, 1, 2, 0, 1, 2], [2, 2, 0, 1, 0, 0]][rd % 3])
        Xw = g.normal(size=(12, 2)) @ np.array([[2.0, 0.3], [0.1, 1.0]]) + 1
        yw = np.array([0, 1, 2] * 4)
        ctx = {"X": hexlist(X), "seed": seed, "round": rd}

        trainers = {
            "k-means[random]": lambda: np.array(KMeansMachine(K, init_method="random", random_state=seed, max_iter=3).fit(X).centroids_),
            "k-means[k-means||]": lambda: np.array(KMeansMachine(K, init_method="k-means||", random_state=seed, max_iter=3).fit(X).centroids_),
            "k-means[k-means||,dask]": lambda: np.array(KMeansMachine(K, init_method="k-means||", random_state=seed, max_iter=3).fit(da.from_array(X, chunks=((6, 8), (2,)))).centroids_),
            "GMM[k-means init]": lambda: (lambda m: np.concatenate([m.means.ravel(), m.variances.ravel(), m.weights]))(
                GMMMachine(K, random_state=seed, max_fitting_steps=2, update_variances=True, update_weights=True).fit(X)),
            "ISV": lambda: np.array(fa.make_machine("isv", copy.deepcopy(ubm), 2, None, em_iterations=2, random_state=seed).fit(stats, y).U),
            "JFA": lambda: (lambda m: np.concatenate([np.ravel(m.U), np.ravel(m.V), np.ravel(m.D)]))(
                fa.make_machine("jfa", copy.deepcopy(ubm), 2, 2, em_iterations=2, random_state=seed).fit(stats, y)),
            "ISV[bag]": lambda: np.array(fa.make_machine("isv", copy.deepcopy(ubm), 2, None, em_iterations=2, random_state=seed).fit(
                dask.bag.from_sequence(stats, npartitions=3), list(y)).U),
            "WCCN": lambda: np.array(WCCN().fit(Xw, yw).weights),
        }
        # ---- same estimator, same data, same seed: whatever the global generator state and whatever was trained before
        ref = {}
        for name, f in trainers.items():
            np.random.seed(12345)
            try:
                ref[name] = f()
            except Exception as e:
                chk.fail("%s raises %r" % (name, e), dict(ctx, trainer=name))
        order = list(ref.keys())
        for rep in range(2):
            r.shuffle(order)                       # a different history of earlier fits
            np.random.seed(r.randint(0, 2 ** 31))
            np.random.normal(size=r.randint(1, 50))    # arbitrary draws from the global generator
            for name in order:
                out = trainers[name]()
                chk.count(1, key=("repeat", name))
                if not same(out, ref[name]):
                    chk.fail("%s with the same data, configuration and random_state gives a different result after the global NumPy generator "
                             "was perturbed / other estimators were trained" % name, dict(ctx, trainer=name, history=order))
        # ---- the same k-means OBJECT trained again (k-means has no warm start: every fit initialises from its integer seed), and one
        #      k-means trainer object shared by two GMM fits
        for how in ("k-means||", "random"):
            km = KMeansMachine(K, init_method=how, random_state=seed, max_iter=2)
            c1 = np.array(km.fit(X).centroids_)
            c2 = np.array(km.fit(X).centroids_)
            chk.count(1, key=("refit-same-object", how))
            if not same(c1, c2):
                chk.fail("fitting the same KMeansMachine object (init %r, integer random_state) twice on the same data gives different centroids" % how,
                         dict(ctx, init_method=how))
        shared = KMeansMachine(K, random_state=seed, max_iter=2)

        def gfit():
            m_ = GMMMachine(K, k_means_trainer=shared, random_state=seed, max_fitting_steps=1, update_variances=True, update_weights=True).fit(X)
            return np.concatenate([m_.means.ravel(), m_.variances.ravel(), m_.weights])
        g1, g2 = gfit(), gfit()
        chk.count(1, key=("shared-kmeans-trainer",))
        if not same(g1, g2):
            chk.fail("two GMMs initialised through the same k-means trainer object (integer random_state) differ: the trainer carries state from the first fit", ctx)
        # ---- one configuration dict (ubm_kwargs) shared by two factor-analysis machines with different seeds: the second one trains as if alone
        if rd % 2 == 0:
            ya = np.repeat(np.arange(3), 8)
            Xa = g.uniform(-3.0, 3.0, size=(24, 2)) + g.uniform(-1.0, 1.0, size=(3, 2))[ya]
            kw0 = dict(n_gaussians=2, max_fitting_steps=2, convergence_threshold=None, update_variances=True)
            for kind in ("isv", "jfa"):
                def fa_fit(sd_, kwargs, disturb=None):
                    cls = em.ISVMachine if kind == "isv" else em.JFAMachine
                    extra = {} if kind == "isv" else {"r_V": 1}
                    mm = cls(r_U=1, em_iterations=1, ubm_kwargs=kwargs, random_state=sd_, **extra)
                    if disturb is not None:
                        # the caller uses NumPy's global generator between constructing the machine and training it
                        np.random.seed(disturb)
                        np.random.rand(3)
                    mm.fit_using_array(Xa, ya)
                    return np.concatenate([np.ravel(mm.U), np.ravel(mm.D), np.ravel(mm.ubm.means)])
                shared = dict(kw0)
                try:
                    fa_fit(3, shared)
                    after_other = fa_fit(seed % 1000 + 7, shared)
                    alone = fa_fit(seed % 1000 + 7, dict(kw0))
                except Exception as e:
                    chk.fail("%s.fit_using_array with ubm_kwargs raises %r" % (kind.upper(), e), dict(ctx, trainer=kind))
                    continue
                chk.count(1, key=("shared-ubm_kwargs", kind))
                try:
                    disturbed = fa_fit(seed % 1000 + 7, dict(kw0), disturb=r.randint(0, 2 ** 31))
                    chk.count(1, key=("global-generator-used-between-construction-and-fit", kind))
                    if not same(disturbed, alone):
                        chk.fail("%s (integer random_state, UBM trained inside fit_using_array) gives another model when NumPy's global generator is used between construction and training"
                                 % kind.upper(), dict(ctx, trainer=kind))
                except Exception as e:
                    chk.fail("%s.fit_using_array with ubm_kwargs raises %r" % (kind.upper(), e), dict(ctx, trainer=kind))
                if not same(after_other, alone):
                    chk.fail("%s trained from arrays with a ubm_kwargs dict that had configured another machine (another seed) before differs from the same training alone"
                             % kind.upper(), dict(ctx, trainer=kind))
                if shared != kw0:
                    chk.fail("%s.fit_using_array modifies the caller's ubm_kwargs dict: %r" % (kind.upper(), shared), dict(ctx, trainer=kind))
        # ---- a machine trained, then trained again after the caller reordered the SAME list / label array in place: the second training is a function
        #      of the data it is given (it equals that of a twin of the machine given copies of the reordered data), not of the containers' identity
        for kind in ("isv", "jfa"):
            mm = fa.make_machine(kind, copy.deepcopy(ubm), 2, 2, em_iterations=1, random_state=int(seed))
            Xl, yl = list(stats), np.array(y)
            mm.fit(Xl, yl)
            twin = copy.deepcopy(mm)
            pm = g.permutation(len(Xl))
            while np.array_equal(yl[pm], yl):
                pm = g.permutation(len(Xl))
            Xl[:] = [Xl[q] for q in pm]
            yl[:] = yl[pm]
            mm.fit(Xl, yl)
            twin.fit(list(Xl), np.array(yl))
            chk.count(1, key=("second fit after in-place reorder", kind))
            pair = lambda m_: np.concatenate([np.ravel(m_.U), np.ravel(m_.D)] + ([np.ravel(m_.V)] if kind == "jfa" else []))
            if not close(pair(mm), pair(twin)):
                chk.fail("%s trained a second time after the caller reordered its statistics list and label array in place differs from a twin machine given copies of the same reordered data "
                         "(something is remembered per container object)" % kind.upper(), dict(ctx, trainer=kind, labels_first=[int(q) for q in y], labels_second=[int(q) for q in yl]))
        # ---- the integer seed given as a NumPy integer scalar (an element of an array, a value read from a file) is the same seed
        for kind in ("isv", "jfa"):
            def fit_seed(sd_):
                mm = fa.make_machine(kind, copy.deepcopy(ubm), 2, 2, em_iterations=1, random_state=sd_).fit(stats, y)
                return np.concatenate([np.ravel(mm.U), np.ravel(mm.D)] + ([np.ravel(mm.V)] if kind == "jfa" else []))
            a_int = fit_seed(int(seed))
            np.random.seed(r.randint(0, 2 ** 31))
            a_np = fit_seed(np.int64(seed))
            np.random.seed(r.randint(0, 2 ** 31))
            a_np2 = fit_seed(np.arange(seed, seed + 1, dtype=np.int32)[0])
            chk.count(1, key=("numpy-integer-seed", kind))
            if not (same(a_int, a_np) and same(a_int, a_np2)):
                chk.fail("%s trained with random_state given as a NumPy integer scalar differs from the same integer as a Python int (or is not reproducible)" % kind.upper(),
                         dict(ctx, trainer=kind))
        # ---- JFA / ISV from labelled arrays, in memory and as a Dask array, classes of unequal size, ids swapped: the same model
        if rd % 2 == 1:
            gx = gen.nprng(r)
            Xu = np.asarray(ubm.means)[gx.integers(0, 2, size=(6, 3))] + gx.normal(size=(6, 3, 2)) * np.sqrt(np.asarray(ubm.variances).mean())
            yu = np.array([0, 0, 1, 1, 1, 1])
            for kind in ("isv", "jfa"):
                def fau(Xin, yin):
                    mm = fa.make_machine(kind, copy.deepcopy(ubm), 1, 1, em_iterations=1, random_state=int(seed))
                    mm.fit_using_array(Xin, yin)
                    return [np.asarray(mm.U), np.asarray(mm.D)] + ([np.asarray(mm.V)] if kind == "jfa" else [])
                try:
                    ref_u = fau(Xu, yu)
                    outs = {"dask": fau(da.from_array(Xu, chunks=((2, 4), (3,), (2,))), yu), "ids swapped": fau(Xu, 1 - yu),
                            "dask, ids swapped": fau(da.from_array(Xu, chunks=((3, 3), (3,), (2,))), 1 - yu)}
                except Exception as e:
                    chk.fail("%s.fit_using_array with classes of unequal size (in memory / Dask / ids swapped) raises %r" % (kind.upper(), e), dict(ctx, trainer=kind))
                    continue
                chk.count(1, key=("fit_using_array unequal classes", kind))
                for nm_, o_ in outs.items():
                    if not all(close(a_, b_, rtol=1e-7) for a_, b_ in zip(ref_u, o_)):
                        chk.fail("%s.fit_using_array with classes of sizes (2, 4): the %s run differs from the in-memory one" % (kind.upper(), nm_), dict(ctx, trainer=kind, variant=nm_))
        # ---- sample order (explicit initialisation where the initialiser itself is not under test)
        perm = g.permutation(len(X))
        k1, _, _ = kt.run_kfit(init, X, None, cap=3)
        k2, _, _ = kt.run_kfit(init, X[perm], None, cap=3)
        chk.count(1, key=("perm", "k-means"))
        if not close(k1.centroids_, k2.centroids_):
            chk.fail("k-means (explicit initial centroids) depends on the order of the samples", ctx)
        w, mu, var, s, Xg = gt.gen_training(r, C=2, D=2, N=12)
        pg = g.permutation(len(Xg))
        cfg = dict(w=w, mu=mu, var=var, thr=None, sw=(True, True, True), eps=float(np.finfo(float).eps), cap=3, cthr=None)
        m1, _ = gt.build_machine(cfg)
        m2, _ = gt.build_machine(cfg)
        gt.run_fit(m1, Xg)
        gt.run_fit(m2, Xg[pg])
        chk.count(1, key=("perm", "GMM"))
        # (a collapsed variance makes the run rounding-dominated: conditioning policy of DESIGN 9.5)
        if gt.well_conditioned(m1, Xg) and not (close(m1.means, m2.means) and close(m1.variances, m2.variances) and close(m1.weights, m2.weights)):
            chk.fail("GMM training depends on the order of the samples", {"X": hexlist(Xg), "perm": [int(a) for a in pg]})
        # ISV / JFA: sample order and class-id permutations
        if rd % 2 == 1:
            # one session without any frame, placed FIRST among the sessions of its class (so that the order of the samples matters to
            # any code that drops or skips it)
            from ..impl import GMMStats as _GS
            Cz_, Dz_ = np.asarray(ubm.means).shape
            stats = list(stats)
            first_of_0 = int(np.flatnonzero(np.asarray(y) == y[0])[0])
            stats[first_of_0] = _GS(Cz_, Dz_)
        ps = g.permutation(len(stats))
        cp = g.permutation(3)
        for kind in ("isv", "jfa"):
            def fit(st, yy):
                return fa.make_machine(kind, copy.deepcopy(ubm), 2, 2, em_iterations=2, random_state=seed).fit(st, np.array(yy))
            a = fit(stats, y)
            b = fit([stats[k] for k in ps], y[ps])
            c = fit(stats, cp[y])
            chk.count(1, key=("perm", kind))
            for what, o in (("the order of the samples", b), ("a permutation of the class ids", c)):
                bad = [nm for nm in ("U", "D") + (("V",) if kind == "jfa" else ()) if not close(getattr(a, nm), getattr(o, nm), rtol=1e-7)]
                if bad:
                    chk.fail("%s training depends on %s (%s differ)" % (kind.upper(), what, bad), dict(ctx, kind=kind, sample_perm=[int(q) for q in ps], class_perm=[int(q) for q in cp]))
            # the same samples in another order, held in a Dask bag whose partitions have unequal sizes (3, 1, 2): the model is a function of the
            # labelled multiset, whatever the container and its partitioning
            try:
                parts_ = [[stats[k] for k in ps[:3]], [stats[ps[3]]], [stats[k] for k in ps[4:]]]
                with dask.config.set(scheduler="synchronous"):
                    d_ = fa.make_machine(kind, copy.deepcopy(ubm), 2, 2, em_iterations=2, random_state=seed).fit(
                        dask.bag.from_delayed([dask.delayed(list)(p_) for p_ in parts_]), [int(q) for q in y[ps]])
                chk.count(1, key=("perm, uneven bag", kind))
                bad = [nm for nm in ("U", "D") + (("V",) if kind == "jfa" else ()) if not close(getattr(a, nm), getattr(d_, nm), rtol=1e-7)]
                if bad:
                    chk.fail("%s trained from the same labelled samples in another order, held in a Dask bag with partitions of 3, 1 and 2 items, differs from the list-trained model (%s differ)"
                             % (kind.upper(), bad), dict(ctx, kind=kind, sample_perm=[int(q) for q in ps], partition_sizes=[3, 1, 2]))
            except Exception as e:
                chk.fail("%s.fit on a Dask bag with partitions of 3, 1 and 2 items raises %r" % (kind.upper(), e), dict(ctx, kind=kind))
        pw = g.permutation(len(yw))
        cw = g.permutation(3)
        W0 = np.asarray(WCCN().fit(Xw, yw).weights)
        chk.count(1, key=("perm", "WCCN"))
        if not close(np.asarray(WCCN().fit(Xw[pw], yw[pw]).weights), W0):
            chk.fail("WCCN depends on the order of the samples", ctx)
        if not close(np.asarray(WCCN().fit(Xw, cw[yw]).weights), W0):
            chk.fail("WCCN depends on a permutation of the class ids", ctx)
        # ... also when the class centres lie 1e6 within-class standard deviations apart (client ids far apart in feature space): the within-class
        # scatter is formed from within-class differences, so the order of the samples only matters at rounding level
        Xfar = Xw + 1e6 * np.array([[1.0, -2.0], [0.0, 3.0], [-4.0, 1.0]])[yw]
        Wf0 = np.asarray(WCCN().fit(Xfar, yw).weights)
        Wf1 = np.asarray(WCCN().fit(Xfar[pw], yw[pw]).weights)
        chk.count(1, key=("perm", "WCCN, far-apart classes"))
        if not np.allclose(Wf1, Wf0, rtol=1e-6, atol=1e-8 * np.abs(Wf0).max()):
            chk.fail("WCCN with class centres 1e6 within-class standard deviations apart depends on the order of the samples (largest relative change %.3g)"
                     % float(np.abs(Wf1 - Wf0).max() / np.abs(Wf0).max()), dict(ctx, Xw=hexlist(Xfar), yw=[int(q) for q in yw], perm=[int(q) for q in pw]))
        # ---- seeded string initialisers draw rows by index: the seeded k-means model depends on the row order (known finding D12)
        for how in ("random", "k-means||"):
            a = np.array(KMeansMachine(K, init_method=how, random_state=seed, max_iter=0).fit(X).centroids_)
            b = np.array(KMeansMachine(K, init_method=how, random_state=seed, max_iter=0).fit(X[perm]).centroids_)
            chk.count(1, key=("perm-seeded-init", how))
            sa, sb = a[np.lexsort(a.T)], b[np.lexsort(b.T)]
            if not close(sa, sb):
                chk.fail("seeded %r initialisation (hence the seeded k-means / k-means-initialised GMM) depends on the order of the samples" % how,
                         dict(ctx, init_method=how, perm=[int(q) for q in perm]), sig=D12)
        if rd < 2:
            chk.sample({"round": rd, "trainers": list(trainers.keys()), "seed": seed})
    chk.notes["reading"] = ("'the same estimator twice' = two freshly constructed estimators with equal configuration; calling fit again on an already fitted "
                            "GMM/ISV/JFA object is a documented warm start and is not in the quantifier")
    return chk.finish(
        rule="k-means (seeded random / k-means||, NumPy and Dask), k-means-initialised GMM, ISV, JFA (lists and bags) and WCCN trained repeatedly with the global "
             "generator re-seeded and advanced arbitrarily and in shuffled orders of earlier fits: bit-identical; sample permutations and class-id permutations "
             "with explicit initialisation: equal up to rounding; distinct = (experiment, trainer)",
        assumptions=["D12 known finding: dask_ml's seeded initialisers pick rows by index"])
