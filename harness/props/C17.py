"""C17  A GMM's likelihood reflects its current visible parameters, whatever its history."""
import copy
import atexit
import os
import shutil
import pickle
import tempfile

import numpy as np

from .. import coqio as cq
from .. import gen
from ..impl import GMMMachine, hexlist, make_gmm

IMPORTS = "Model.GMM Model.Machine Corr.CorrBase Corr.CorrMachine"


def thr_term(t):
    if np.ndim(t) == 0:
        return "(OF.ThrScalar %s)" % cq.fl(float(t))
    if np.ndim(t) == 1:
        return "(OF.ThrRow %s)" % cq.vec(t)
    return "(OF.ThrMat %s)" % cq.mat(t)


def gen_thr(r, C, D, s, low=False):
    k = r.choice(["scalar", "row", "matrix"])
    base = (1e-12 if low else 10.0 ** r.uniform(-3, 0.3)) * float(np.min(s)) ** 2
    if k == "scalar":
        return float(base)
    g = gen.nprng(r)
    if k == "row":
        return base * g.uniform(0.5, 2.0, size=D)
    return base * g.uniform(0.5, 2.0, size=(C, D))


def run(chk):
    chk.prove()
    r = gen.rng(chk.seed, "C17")
    n_hist = 30 if chk.tier == "quick" else 1200
    max_ops = 12 if chk.tier == "quick" else 40
    terms = []
    eps = float(np.finfo(float).eps)
    tmpd = tempfile.mkdtemp(prefix="c17_")
    atexit.register(shutil.rmtree, tmpd, ignore_errors=True)
    for i in range(n_hist):
        C, D = r.choice([1, 2, 3]), r.choice([1, 2, 3])
        w, mu, var, s = gen.gen_gmm(r, C, D, r.choice(["unit", "mixed"]))
        thr0 = gen_thr(r, C, D, s)
        m = make_gmm(w, mu, var, thr=thr0, max_fitting_steps=1, convergence_threshold=None)
        probe = gen.gen_data(r, w, mu, var, 3, "model")
        X = gen.sample_from(r, w, mu, var, 8)
        ops_t, obs_t, names = [], [], []
        g = gen.nprng(r)
        ctx = {"w": hexlist(w), "mu": hexlist(mu), "var": hexlist(var), "shape": [C, D], "thr0": hexlist(np.atleast_1d(thr0)),
               "probe": hexlist(probe), "X": hexlist(X)}
        nops = r.randint(3, max_ops)
        bad_here = False
        for k in range(nops):
            kind = r.choice(["SetW", "SetMu", "SetVar", "SetThrUp", "SetThrDown", "EmStep", "EmStep", "Copy", "Pickle", "SaveLoad", "LoadOther"])
            if kind == "SetW":
                nw = gen.simplex(r, C)
                m.weights = nw
                ops_t.append("OF.SetW %s" % cq.vec(nw))
            elif kind == "SetMu":
                nm = np.asarray(m.means) + g.normal(size=(C, D)) * s * 0.3
                m.means = nm
                ops_t.append("OF.SetMu %s" % cq.mat(nm))
            elif kind == "SetVar":
                nv = np.asarray(var) * g.uniform(1e-4, 3.0, size=(C, D))     # may fall below the current floors
                m.variances = nv
                ops_t.append("OF.SetVar %s" % cq.mat(nv))
            elif kind in ("SetThrUp", "SetThrDown"):
                t = gen_thr(r, C, D, s, low=(kind == "SetThrDown"))
                m.variance_thresholds = t
                ops_t.append("OF.SetThr %s" % thr_term(t))
            elif kind == "EmStep":
                sw = (r.random() < 0.6, r.random() < 0.6, r.random() < 0.5)
                m.update_means, m.update_variances, m.update_weights = sw
                m.fit(X)
                ops_t.append("OF.EmStep (mksw %s %s %s) %s %s %s" % (cq.boolean(sw[0]), cq.boolean(sw[1]), cq.boolean(sw[2]), cq.fl(eps), cq.nat(D), cq.mat(X)))
            elif kind == "Copy":
                m = copy.deepcopy(m)
                ops_t.append("OF.Copy")
            elif kind == "Pickle":
                m = pickle.loads(pickle.dumps(m))
                ops_t.append("OF.Pickle")
            elif kind == "LoadOther":
                # load() a file that holds ANOTHER model of the same shape into this (already used) object
                w2, mu2, var2, s2 = gen.gen_gmm(r, C, D, "unit")
                t2 = gen_thr(r, C, D, s2)
                other = make_gmm(w2, mu2, var2, thr=t2, max_fitting_steps=1, convergence_threshold=None)
                path = os.path.join(tmpd, "o%d_%d.h5" % (i, k))
                other.save(path)
                m.load(path)
                m.max_fitting_steps, m.convergence_threshold = 1, None
                os.remove(path)
                ops_t.append("OF.LoadOther %s %s %s %s" % (cq.vec(w2), cq.mat(mu2), cq.mat(var2), thr_term(t2)))
            else:
                path = os.path.join(tmpd, "m%d_%d.h5" % (i, k))
                m.save(path)
                m = GMMMachine.from_hdf5(path)
                m.max_fitting_steps, m.convergence_threshold = 1, None
                os.remove(path)
                ops_t.append("OF.SaveLoad")
            names.append(kind)
            chk.count(1, key=(kind, np.ndim(m.variance_thresholds)))
            ll = np.asarray(m.log_likelihood(probe))
            obs_t.append("{| ob_w := %s; ob_mu := %s; ob_var := %s; ob_ll := %s |}" % (cq.vec(m.weights), cq.mat(m.means), cq.mat(m.variances), cq.vec(ll)))
            # ---- oracle: a fresh machine with identical visible parameters scores identically; variances >= floors
            fresh = GMMMachine(n_gaussians=C, weights=np.array(m.weights))
            fresh.means = np.array(m.means)
            fresh.variance_thresholds = 0.0
            fresh.variances = np.array(m.variances)
            fl = np.asarray(fresh.log_likelihood(probe))
            hist = dict(ctx, ops=names[:])
            if not np.allclose(ll, fl, rtol=1e-12, atol=1e-12):
                chk.fail("after %s the machine scores %s but a fresh machine with the same visible parameters scores %s" % (names, ll.tolist(), fl.tolist()), hist)
                bad_here = True
            sm, sf = m.acc_stats(X), fresh.acc_stats(X)
            if not (np.allclose(sm.n, sf.n, rtol=1e-10, atol=1e-12) and np.allclose(sm.sum_px, sf.sum_px, rtol=1e-10, atol=1e-10 * (1 + np.abs(X).max()))):
                chk.fail("after %s the statistics differ from those of a fresh machine with the same visible parameters" % names, hist)
                bad_here = True
            T = np.broadcast_to(np.asarray(m.variance_thresholds, dtype=float), np.asarray(m.variances).shape)
            if not np.all(np.asarray(m.variances) >= T):
                chk.fail("after %s some variance is below its current floor" % names, hist)
                bad_here = True
            if bad_here:
                break
        terms.append("{| hc_w := %s; hc_mu := %s; hc_var := %s; hc_thr := %s; hc_ops := [%s]; hc_probe := %s; hc_rtol := %s; hc_atol := %s; hc_obs := [%s] |}" % (
            cq.vec(w), cq.mat(mu), cq.mat(var), thr_term(thr0), ";\n  ".join(ops_t), cq.mat(probe), cq.fl(2.0 ** -22),
            cq.fl(1e-9 * max(1.0, float(np.abs(X).max())) ** 2), ";\n  ".join(obs_t)))
        if i < 2:
            chk.sample({"C": C, "D": D, "ops": names})
    # ---- training on a Dask array with workers that do not share memory with the caller (every task serialised), weights and variances
    #      updated: afterwards the machine scores like a fresh machine with its visible parameters (the copy-back refreshed everything derived)
    from .. import dasksched
    from ..impl import da
    for j in range(4 if chk.tier == "quick" else 60):
        C, D = r.choice([2, 3]), r.choice([1, 2])
        w, mu, var, s = gen.gen_gmm(r, C, D, "unit")
        X = gen.sample_from(r, w, mu + 0.5 * s, var, 12)
        probe = gen.sample_from(r, w, mu, var, 4)
        mi = make_gmm(w, mu, var, max_fitting_steps=r.choice([1, 2]), convergence_threshold=None)
        mi.update_means, mi.update_variances, mi.update_weights = True, bool(j % 2 == 0), True
        try:
            dasksched.run_under(11 + j, True, lambda: mi.fit(da.from_array(X, chunks=((5, 7), (D,)))))
        except Exception as e:
            chk.fail("GMM training on a Dask array with serialised tasks raises %r" % (e,), {"X": hexlist(X)})
            continue
        fresh = GMMMachine(n_gaussians=C, weights=np.array(mi.weights))
        fresh.means = np.array(mi.means)
        fresh.variance_thresholds = 0.0
        fresh.variances = np.array(mi.variances)
        chk.count(1, key=("after Dask training with serialised tasks", bool(j % 2 == 0)))
        if not np.allclose(np.asarray(mi.log_likelihood(probe)), np.asarray(fresh.log_likelihood(probe)), rtol=1e-12, atol=1e-12):
            chk.fail("after training on a Dask array with serialised tasks (weights%s updated) the machine scores %s but a fresh machine with the same visible parameters scores %s"
                     % (" and variances" if j % 2 == 0 else "", np.asarray(mi.log_likelihood(probe)).tolist(), np.asarray(fresh.log_likelihood(probe)).tolist()),
                     {"w": hexlist(w), "mu": hexlist(mu), "var": hexlist(var), "X": hexlist(X), "probe": hexlist(probe), "history": "fit(dask array) under a serialising scheduler"})
    # ---- per-feature / per-entry floors assigned AFTER the variances, with one entry raised above an existing variance while the largest floor
    #      does not grow: the variances are clamped and the machine scores like a fresh one
    for j in range(6 if chk.tier == "quick" else 100):
        C, D = r.choice([1, 2, 3]), r.choice([2, 3])
        w, mu, var, s = gen.gen_gmm(r, C, D, "unit")
        probe = gen.sample_from(r, w, mu, var, 5)
        thr_a = np.full(D, 1e-6)
        thr_a[-1] = 10.0 * float(np.max(var))
        m = make_gmm(w, mu, var, thr=thr_a.copy() if j % 2 else np.tile(thr_a, (C, 1)))
        m.log_likelihood(probe)
        thr_b = np.array(thr_a)
        thr_b[0] = 2.0 * float(np.max(var[:, 0]))              # raised above every variance of feature 0; the largest floor is unchanged
        m.variance_thresholds = thr_b.copy() if j % 2 else np.tile(thr_b, (C, 1))
        fresh = GMMMachine(n_gaussians=C, weights=np.array(m.weights))
        fresh.means = np.array(m.means)
        fresh.variance_thresholds = 0.0
        fresh.variances = np.array(m.variances)
        Tb = np.broadcast_to(np.asarray(m.variance_thresholds, dtype=float), np.asarray(m.variances).shape)
        chk.count(1, key=("array floors raised below the largest floor", j % 2))
        if not (np.all(np.asarray(m.variances) >= Tb) and np.allclose(np.asarray(m.log_likelihood(probe)), np.asarray(fresh.log_likelihood(probe)), rtol=1e-12, atol=1e-12)):
            chk.fail("after raising one entry of array-valued variance floors (largest floor unchanged) the variances %s are below the floors %s / the machine does not score like a fresh one"
                     % (np.asarray(m.variances).tolist(), thr_b.tolist()), {"w": hexlist(w), "mu": hexlist(mu), "var": hexlist(var), "floors_before": hexlist(thr_a), "floors_after": hexlist(thr_b), "probe": hexlist(probe)})
    # ---- a weight set to exactly 0 (a pruned component) on a machine that held a positive weight there: the component no longer contributes.
    #      Oracle computed by hand (a fresh machine has held the constructor's 1/K in that slot, so it has the same history).
    for j in range(8 if chk.tier == "quick" else 300):
        C, D = r.choice([2, 3, 4]), r.choice([1, 2])
        w, mu, var, s = gen.gen_gmm(r, C, D, "unit")
        m = make_gmm(w, mu, var)
        probe = gen.sample_from(r, w, mu, var, 6)
        if j % 2:
            m.log_likelihood(probe)      # used before the assignment
        z = r.randrange(C)
        wz = np.array(w, dtype=float)
        wz[z] = 0.0
        wz = wz / wz.sum()
        import warnings
        with warnings.catch_warnings():
            warnings.simplefilter("ignore")
            m.weights = wz
            ll = np.asarray(m.log_likelihood(probe), dtype=float)
            st = m.acc_stats(probe)
        comp = -0.5 * (((probe[None, :, :] - mu[:, None, :]) ** 2 / var[:, None, :]).sum(-1) + np.log(2 * np.pi * var).sum(-1)[:, None])
        alive = [c for c in range(C) if c != z]
        # (log-sum-exp of the live terms, shifted by their maximum: exp of a term near -740 is a subnormal with a handful of bits)
        lw_ = np.array([np.log(wz[c]) + comp[c] for c in alive])
        want = lw_.max(axis=0) + np.log(np.exp(lw_ - lw_.max(axis=0)).sum(axis=0))
        chk.count(1, key=("weight set to exactly 0", C))
        if not (np.allclose(ll, want, rtol=1e-10, atol=1e-10) and float(np.asarray(st.n)[z]) == 0.0):
            chk.fail("after assigning weights %s (component %d pruned) the machine scores %s instead of %s and gives that component the occupancy %.6g (a stale log-weight survives)"
                     % (wz.tolist(), z, ll.tolist(), want.tolist(), float(np.asarray(st.n)[z])),
                     {"w_before": hexlist(w), "w_after": hexlist(wz), "mu": hexlist(mu), "var": hexlist(var), "probe": hexlist(probe), "component": z})
    # ---- variances handed from one machine to another (m2.variances = m1.variances) and from a caller's array: the receiving machine clamps its
    #      own copy; the giver, its cached normaliser and the caller's array are untouched
    for j in range(8 if chk.tier == "quick" else 300):
        C, D = r.choice([1, 2, 3]), r.choice([1, 2, 3])
        w, mu, var, s = gen.gen_gmm(r, C, D, "unit")
        m1 = make_gmm(w, mu, var, thr=1e-9)
        m2 = make_gmm(w, mu, var, thr=1e-9)
        probe = gen.sample_from(r, w, mu, var, 5)
        ll_before = np.array(m1.log_likelihood(probe))
        m2.variance_thresholds = float(np.median(var)) * 1.5            # floors above part of m1's variances
        given = m1.variances if j % 2 == 0 else np.array(var)
        snap = np.array(given, copy=True)
        m2.variances = given
        chk.count(1, key=("variances handed over", "from a machine" if j % 2 == 0 else "caller array"))
        cx = {"w": hexlist(w), "mu": hexlist(mu), "var": hexlist(var), "probe": hexlist(probe), "floor_of_receiver": float(np.median(var)) * 1.5}
        if not np.array_equal(np.asarray(given), snap):
            chk.fail("assigning an array to GMMMachine.variances modifies the array that was handed over (%s)" % ("the variances of another machine" if j % 2 == 0 else "a caller's array"), cx)
        fresh1 = make_gmm(np.array(m1.weights), np.array(m1.means), np.array(m1.variances), thr=0.0)
        if not (np.allclose(np.asarray(m1.log_likelihood(probe)), np.asarray(fresh1.log_likelihood(probe)), rtol=1e-12, atol=1e-12)
                and np.array_equal(np.asarray(m1.log_likelihood(probe)), ll_before)):
            chk.fail("after m2.variances = m1.variances (m2 has higher floors) machine m1 no longer scores like a fresh machine with its visible parameters / like before", cx)
        m2.variances = np.asarray(m2.variances) * 2.0
        if not np.array_equal(np.asarray(m1.log_likelihood(probe)), ll_before):
            chk.fail("an update of m2's variances changes the scores of m1 (the two machines share storage after m2.variances = m1.variances)", cx)
    # MAP adaptation with weight/variance updating on NumPy input: no stale log-weight or normaliser afterwards
    for j in range(6 if chk.tier == "quick" else 200):
        C, D = r.choice([2, 3]), r.choice([1, 2])
        w, mu, var, s = gen.gen_gmm(r, C, D, "unit")
        prior = make_gmm(w, mu, var)
        X = gen.sample_from(r, gen.simplex(r, C), mu + 0.5 * np.sqrt(var), var, 9)
        mm = GMMMachine(n_gaussians=C, trainer="map", ubm=prior, max_fitting_steps=r.choice([1, 2]), update_weights=True,
                        update_variances=bool(j % 2), map_relevance_factor=r.choice([0.5, 4.0]))
        mm.fit(X)
        fresh = GMMMachine(n_gaussians=C, weights=np.array(mm.weights))
        fresh.means = np.array(mm.means)
        fresh.variance_thresholds = 0.0
        fresh.variances = np.array(mm.variances)
        chk.count(1, key=("map-fit", bool(j % 2)))
        if not np.allclose(np.asarray(mm.log_likelihood(X)), np.asarray(fresh.log_likelihood(X)), rtol=1e-12, atol=1e-12):
            chk.fail("after MAP training (update_weights=True) the machine scores differently from a fresh machine with the same visible parameters",
                     {"w": hexlist(w), "mu": hexlist(mu), "var": hexlist(var), "X": hexlist(X), "shape": [C, D]})
    # further public histories, each ending in the comparison with a freshly built machine of the same visible parameters:
    #  (a) observe, then load() ANOTHER model of the same shape into the machine, observe again
    #  (b) augmented assignment through a property (m.variances *= k, m.means += d, m.weights[...] edit + assign back): the getter hands out the
    #      machine's own array, the setter receives that very array after it was edited in place
    def fresh_of(mach, thr):
        f = GMMMachine(n_gaussians=len(np.asarray(mach.weights)), weights=np.array(mach.weights))
        f.means = np.array(mach.means)
        f.variance_thresholds = np.array(thr)
        f.variances = np.array(mach.variances)
        return f
    for j in range(18 if chk.tier == "quick" else 450):
        C, D = r.choice([1, 2, 3]), r.choice([1, 2, 3])
        w, mu, var, s = gen.gen_gmm(r, C, D, "unit")
        m = make_gmm(w, mu, var, thr=1e-3 * float(s.min()) ** 2)
        X = gen.sample_from(r, w, mu, var, 6)
        g = gen.nprng(r)
        ctxh = {"w": hexlist(w), "mu": hexlist(mu), "var": hexlist(var), "shape": [C, D], "X": hexlist(X)}
        _ = m.log_likelihood(X), m.acc_stats(X)               # whatever is cached is cached now
        kind = ["load-other", "variances*=", "variances-row-edit", "means+=", "floors-raised-then-var*=", "other-component-count", "update-threshold-changed",
                "other-dimension-variances-first", "fit-with-default-variances-under-a-floor-above-one"][j % 9]
        if kind == "load-other":
            w2, mu2, var2, s2 = gen.gen_gmm(r, C, D, "unit")
            other = make_gmm(w2, mu2 + 0.5 * s2, var2 * g.uniform(0.3, 3.0, size=(C, D)), thr=1e-3 * float(s2.min()) ** 2)
            path = os.path.join(tmpd, "other%d.h5" % j)
            other.save(path)
            m.load(path)
            want = other
        elif kind == "variances*=":
            m.variances *= 4.0
            want = None
        elif kind == "variances-row-edit":
            v = m.variances
            v[0] = np.asarray(v[0]) * 1e-9                       # far below the floor: must be clamped when assigned back
            m.variances = v
            want = None
        elif kind == "means+=":
            m.means += 0.7 * s
            want = None
        elif kind == "other-component-count":
            # the public setters accept parameters for another number of components than the constructor was told
            C2 = C + 1
            w2, mu2, var2, s2 = gen.gen_gmm(r, C2, D, "unit")
            m.weights, m.means = w2, mu2
            m.variance_thresholds = 1e-3 * float(s2.min()) ** 2
            m.variances = var2
            want = None
        elif kind == "update-threshold-changed":
            # a machine without explicit floors whose mean_var_update_threshold is changed after construction
            m = GMMMachine(n_gaussians=C, weights=np.array(w))
            m.means, m.variances = np.array(mu), np.array(var)
            _ = m.log_likelihood(X)
            if j % 2:
                m.set_params(mean_var_update_threshold=float(np.max(var)) * 2.0)
            else:
                m.mean_var_update_threshold = float(np.max(var)) * 2.0
            want = None
        elif kind == "other-dimension-variances-first":
            # re-parameterised for another feature dimension, the variances assigned before the means
            D2 = D + 2
            w2, mu2, var2, s2 = gen.gen_gmm(r, C, D2, "unit")
            m.variance_thresholds = 1e-3
            m.variances = var2
            m.means = mu2
            m.weights = w2
            X = gen.sample_from(r, w2, mu2, var2, 6)
            ctxh = dict(ctxh, X=hexlist(X), reparameterised_shape=[C, D2])
            want = None
        elif kind == "fit-with-default-variances-under-a-floor-above-one":
            # means given, variances never assigned, a floor above 1: fit falls back to unit variances, which the floors must lift
            m = GMMMachine(n_gaussians=C, weights=np.array(w), max_fitting_steps=1, convergence_threshold=None, update_means=True)
            m.means = np.array(mu)
            m.variance_thresholds = 2.5
            m.fit(X)
            want = None
        else:
            m.variance_thresholds = float(np.median(np.asarray(m.variances)))
            m.variances *= 0.5
            want = None
        chk.count(1, key=("history", kind))
        thr_now = np.asarray(m.variance_thresholds)
        f = fresh_of(m, thr_now) if want is None else fresh_of(want, np.asarray(want.variance_thresholds))
        okp = (np.allclose(np.asarray(m.log_likelihood(X)), np.asarray(f.log_likelihood(X)), rtol=1e-12, atol=1e-12)
               and np.asarray(m.acc_stats(X).sum_pxx).shape == np.asarray(f.acc_stats(X).sum_pxx).shape
               and np.asarray(m.acc_stats(X).sum_px).shape == np.asarray(f.acc_stats(X).sum_px).shape
               and np.allclose(np.asarray(m.acc_stats(X).sum_pxx), np.asarray(f.acc_stats(X).sum_pxx), rtol=1e-10, atol=1e-12))
        if not okp:
            chk.fail("after the history [observe; %s; observe] the machine scores differently from a fresh machine with the same visible parameters" % kind,
                     dict(ctxh, history=kind, visible_variances=hexlist(m.variances)))
        if not np.all(np.asarray(m.variances) >= np.broadcast_to(thr_now, np.asarray(m.variances).shape)):
            chk.fail("after the history [observe; %s] some variance is below the machine's current floor" % kind, dict(ctxh, history=kind, visible_variances=hexlist(m.variances)))
    shutil.rmtree(tmpd, ignore_errors=True)
    bad, info = cq.run_cases("C17", IMPORTS, "hist_case", "hist_check", terms, shard=40)
    chk.correspondence("GMMMachine under histories of setters / EM steps / deepcopy / pickle / HDF5 round trips ~ OF.run (state compared after every operation)",
                       len(terms), bad, info)
    return chk.finish(
        rule="random histories of 3..%d operations {set weights/means/variances (possibly below the floors), raise/lower floors with scalar/per-feature/matrix shape, "
             "single ML EM step with random switches, deepcopy, pickle, save+from_hdf5}; distinct = (operation kind, floor shape)" % max_ops)
