"""C18  Saving and loading a GMM or its statistics preserves them exactly."""
import copy
import atexit
import os
import shutil
import tempfile

import h5py
import numpy as np

from .. import gen
from .. import gmmtrain as gt
from ..impl import GMMMachine, GMMStats, hexlist, make_gmm


def same_bits(a, b):
    a, b = np.asarray(a), np.asarray(b)
    return a.shape == b.shape and a.dtype == b.dtype and a.tobytes() == b.tobytes()


def settings(m):
    return (str(m.trainer), None if m.max_fitting_steps is None else int(m.max_fitting_steps),
            None if m.convergence_threshold is None else float(m.convergence_threshold),
            bool(m.update_means), bool(m.update_variances), bool(m.update_weights))


def write_legacy_machine(path, m):
    """The layout of tests/data/gmm_ML_legacy.hdf5."""
    with h5py.File(path, "w") as f:
        C = m.means.shape[0]
        f["m_n_gaussians"] = np.array([C], dtype=np.int64)
        f["m_weights"] = np.asarray(m.weights)
        T = np.broadcast_to(np.asarray(m.variance_thresholds, dtype=float), m.means.shape)
        for i in range(C):
            g = f.create_group("m_gaussians%d" % i)
            g["m_mean"] = np.asarray(m.means[i])
            g["m_variance"] = np.asarray(m.variances[i])
            g["m_variance_thresholds"] = np.asarray(T[i])


def write_legacy_stats(path, s):
    with h5py.File(path, "w") as f:
        f["n_gaussians"] = int(s.n_gaussians)
        f["n_inputs"] = int(s.n_features)
        f["log_liklihood"] = float(s.log_likelihood)
        f["T"] = int(s.t)
        f["n"] = np.asarray(s.n)
        f["sumPx"] = np.asarray(s.sum_px)
        f["sumPxx"] = np.asarray(s.sum_pxx)


def _isolated_dask_round_trip(chk, r, tmpd):
    """A machine trained on a Dask array by workers that see serialised copies (weights and variances updated), then saved and read back:
    the reloaded machine scores the samples exactly like the machine that was saved."""
    from .. import dasksched
    from ..impl import da
    for j in range(3 if chk.tier == "quick" else 30):
        w, mu, var, s, X = gt.gen_training(r, C=2, N=12, scale="unit")
        m = make_gmm(w, mu + 0.5 * s, var, max_fitting_steps=2, convergence_threshold=None, update_means=True, update_variances=True, update_weights=True)
        try:
            dasksched.run_under(31 + j, True, lambda: m.fit(da.from_array(X, chunks=((5, len(X) - 5), (X.shape[1],)))))
        except Exception as e:
            chk.fail("GMM training on a Dask array with serialised tasks raises %r" % (e,), {"X": hexlist(X)})
            continue
        path = os.path.join(tmpd, "iso%d.h5" % j)
        m.save(path)
        m2 = GMMMachine.from_hdf5(path)
        os.remove(path)
        chk.count(1, key=("machine", "trained on isolated Dask workers, then saved and reloaded"))
        a_, b_ = np.asarray(m.log_likelihood(X)), np.asarray(m2.log_likelihood(X))
        if not np.allclose(a_, b_, rtol=1e-12, atol=1e-12):
            chk.fail("a machine trained on a Dask array by serialised workers and then saved scores the samples %s, the machine read back from the file %s (equal parameters)"
                     % (a_.tolist(), b_.tolist()), {"X": hexlist(X), "w": hexlist(w), "mu": hexlist(mu + 0.5 * s), "var": hexlist(var)})


def run(chk):
    chk.prove()
    r = gen.rng(chk.seed, "C18")
    n_cases = 40 if chk.tier == "quick" else 2000
    tmpd = tempfile.mkdtemp(prefix="c18_")
    atexit.register(shutil.rmtree, tmpd, ignore_errors=True)
    _isolated_dask_round_trip(chk, gen.rng(chk.seed, "C18-isolated"), tmpd)
    for i in range(n_cases):
        C, D = r.choice([1, 2, 3]), r.choice([1, 2, 3])
        if i % 8 == 5:
            C = r.choice([11, 12, 23])          # more than ten components: group names m_gaussians10.. sort before m_gaussians2 in HDF5 name order
        w, mu, var, s = gen.gen_gmm(r, C, D, r.choice(["unit", "mixed"]))
        g = gen.nprng(r)
        thr_kind = r.choice(["default", "scalar", "vector", "matrix", "tiny"])
        thr = {"default": None, "scalar": 1e-3 * float(s.min()) ** 2, "vector": 1e-3 * s ** 2 * g.uniform(0.5, 2, size=D),
               "matrix": 1e-3 * (s ** 2)[None, :] * g.uniform(0.5, 2, size=(C, D)), "tiny": 1e-30}[thr_kind]
        sw = (r.random() < 0.5, r.random() < 0.5, r.random() < 0.5)
        steps = r.choice([None, 1, 3, 200])
        cthr = r.choice([None, 1e-5, 0.123]) if steps is not None else r.choice([1e-5, 0.123])
        kind = "map" if i % 3 == 0 else "ml"
        kw = dict(update_means=sw[0], update_variances=sw[1], update_weights=sw[2], max_fitting_steps=steps, convergence_threshold=cthr)
        if kind == "map":
            prior = make_gmm(w, mu, var, thr=thr)
            m = GMMMachine(n_gaussians=C, trainer="map", ubm=prior, **kw)
            m.means = np.asarray(mu) + g.normal(size=(C, D)) * s * 0.2       # adapted parameters differ from the prior's
            if i % 2 == 0:
                m.variances = np.asarray(var) * g.uniform(0.5, 3.0, size=(C, D))
                m.weights = gen.simplex(r, C)
        else:
            prior = None
            m = make_gmm(w, mu, var, thr=thr, **kw)
        if thr_kind == "tiny":
            m.variances = np.asarray(var) * 1e-20                            # variances far below the default floor
        X = gen.sample_from(r, w, mu, var, 9)
        probe = gen.gen_data(r, w, mu, var, 4, "model")
        ctx = {"kind": kind, "w": hexlist(m.weights), "mu": hexlist(m.means), "var": hexlist(m.variances), "shape": [C, D], "floors": thr_kind,
               "switches": list(sw), "max_fitting_steps": steps, "convergence_threshold": cthr}
        chk.count(1, key=(kind, thr_kind, steps is None, cthr is None))
        path = os.path.join(tmpd, "m%d.h5" % i)
        try:
            m.save(path)
        except Exception as e:
            chk.fail("GMMMachine.save raises %r" % (e,), ctx)
            continue
        loaders = {
            "from_hdf5(path)": lambda: GMMMachine.from_hdf5(path, ubm=prior),
            "from_hdf5(open file)": lambda: GMMMachine.from_hdf5(h5py.File(path, "r"), ubm=prior),
            "load into another shape": lambda: (lambda o: (o.load(path) if prior is None else o.__dict__.update(GMMMachine.from_hdf5(path, ubm=prior).__dict__)) or o)(
                make_gmm(np.ones(C + 1) / (C + 1), np.zeros((C + 1, D + 1)), np.ones((C + 1, D + 1)))),
        }
        for how, ld in loaders.items():
            try:
                m2 = ld()
            except Exception as e:
                chk.fail("%s raises %r" % (how, e), dict(ctx, how=how))
                continue
            hctx = dict(ctx, how=how)
            if not (same_bits(m2.means, m.means) and same_bits(m2.variances, m.variances) and same_bits(m2.weights, m.weights)):
                chk.fail("reloaded parameters are not bit-identical (%s)" % how, dict(hctx, var_loaded=hexlist(m2.variances)))
                continue
            T1 = np.broadcast_to(np.asarray(m.variance_thresholds, dtype=float), m.means.shape)
            T2 = np.broadcast_to(np.asarray(m2.variance_thresholds, dtype=float), m.means.shape)
            if not same_bits(T1.copy(), T2.copy()):
                chk.fail("reloaded variance floors differ (%s)" % how, hctx)
            if not (m2 == m and m == m2):
                chk.fail("reloaded machine is not equal under the package's equality (%s)" % how, hctx)
            if not same_bits(m2.log_likelihood(probe), m.log_likelihood(probe)):
                chk.fail("reloaded machine scores samples differently (%s)" % how, hctx)
            if how != "load into another shape" or prior is None:
                if settings(m2) != settings(m):
                    chk.fail("recorded training settings not restored (%s): saved %s, loaded %s" % (how, settings(m), settings(m2)), hctx)
                    continue
                # trains identically from then on
                a, b = copy.deepcopy(m), copy.deepcopy(m2)
                for q in (a, b):
                    q.max_fitting_steps = 2 if q.max_fitting_steps is None else min(2, q.max_fitting_steps)
                a.fit(X)
                b.fit(X)
                if not (same_bits(a.means, b.means) and same_bits(a.variances, b.variances) and same_bits(a.weights, b.weights)):
                    chk.fail("the reloaded machine does not train identically (%s)" % how, hctx)
            # saving the reloaded object gives an equivalent file
            p2 = os.path.join(tmpd, "m%d_b.h5" % i)
            m2.save(p2)
            m3 = GMMMachine.from_hdf5(p2, ubm=prior)
            if not (same_bits(m3.means, m.means) and same_bits(m3.variances, m.variances) and same_bits(m3.weights, m.weights) and settings(m3) == settings(m2)):
                chk.fail("re-saving the reloaded machine does not give an equivalent file (%s)" % how, hctx)
            os.remove(p2)
        # MAP files need the UBM
        if kind == "map":
            try:
                GMMMachine.from_hdf5(path)
                chk.fail("loading a MAP machine without a UBM is not refused", ctx)
            except ValueError:
                pass
        # load() into an existing machine that carries a prior (ubm) of ANOTHER shape: the file decides, as for a machine without prior
        if kind == "ml" and i % 3 == 1:
            wq_, muq_, varq_, sq_ = gen.gen_gmm(r, C + 1, D, "unit")
            tgt = GMMMachine(n_gaussians=C + 1, trainer="map", ubm=make_gmm(wq_, muq_, varq_))
            try:
                tgt.load(path)
                chk.count(1, key=("machine", "load into a machine with a prior of another shape"))
                if not (same_bits(tgt.means, m.means) and same_bits(tgt.variances, m.variances) and same_bits(tgt.weights, m.weights)
                        and same_bits(tgt.log_likelihood(probe), m.log_likelihood(probe))):
                    chk.fail("load() into a machine that carries a prior of another shape does not give the saved model", ctx)
            except Exception as e:
                chk.fail("load() into a machine that carries a prior of another shape raises %r" % (e,), ctx)
        # legacy machine layout = current layout
        if kind == "ml":
            pl = os.path.join(tmpd, "l%d.h5" % i)
            write_legacy_machine(pl, m)
            ml = GMMMachine.from_hdf5(pl)
            if not (same_bits(ml.means, m.means) and same_bits(ml.variances, m.variances) and same_bits(ml.weights, m.weights)
                    and same_bits(ml.log_likelihood(probe), m.log_likelihood(probe))):
                chk.fail("a legacy-format file loads to a different model than its current-format counterpart", ctx)
            os.remove(pl)
        os.remove(path)
        # ---------------------------------------------------------------- statistics
        st = m.acc_stats(X)
        ps = os.path.join(tmpd, "s%d.h5" % i)
        st.save(ps)
        sctx = dict(ctx, n=hexlist(st.n), t=int(st.t))
        for how, ld in {"from_hdf5(path)": lambda: GMMStats.from_hdf5(ps), "from_hdf5(open file)": lambda: GMMStats.from_hdf5(h5py.File(ps, "r")),
                        "load into another shape": lambda: (lambda o: o.load(ps) or o)(GMMStats(C + 2, D + 1))}.items():
            s2 = ld()
            chk.count(1, key=("stats", how))
            if not (int(s2.t) == int(st.t) and float(s2.log_likelihood) == float(st.log_likelihood) and same_bits(s2.n, st.n)
                    and same_bits(s2.sum_px, st.sum_px) and same_bits(s2.sum_pxx, st.sum_pxx) and s2 == st and tuple(s2.shape) == tuple(st.shape)):
                chk.fail("statistics not preserved by %s" % how, dict(sctx, how=how))
            p3 = os.path.join(tmpd, "s%d_b.h5" % i)
            s2.save(p3)
            if not GMMStats.from_hdf5(p3) == st:
                chk.fail("re-saved statistics differ (%s)" % how, dict(sctx, how=how))
            os.remove(p3)
        # one open file handle read several times (constructor-from-file, load into a same-shape and an other-shape object, the caller's own
        # access): the reader leaves the caller's handle open and positioned as it found it
        with h5py.File(ps, "r") as hnd:
            try:
                r1 = GMMStats.from_hdf5(hnd)
                r2 = GMMStats(C, D)
                r2.load(hnd)
                r3 = GMMStats(C + 1, D + 2)
                r3.load(hnd)
                n_direct = np.asarray(hnd["n"][()])
                chk.count(1, key=("stats", "one handle, several reads"))
                if not (r1 == st and r2 == st and r3 == st and same_bits(n_direct, st.n)):
                    chk.fail("reading the same open statistics file several times gives different statistics", sctx)
            except Exception as e:
                chk.fail("reading the same open statistics file a second time raises %r (the reader must not close / consume the caller's handle)" % (e,), sctx)
        # loading into an existing container of the SAME shape that is not pristine: its arrays hold a narrower type (hard integer counts,
        # single precision) and are referenced by the caller; the loaded statistics are the file's, the caller's arrays are not written to
        used = GMMStats(C, D)
        used.t = 3
        used.n = np.arange(1, C + 1, dtype=np.int64)
        used.sum_px = np.ones((C, D), dtype=np.float32)
        used.sum_pxx = np.full((C, D), 2, dtype=np.int32)
        mine = (used.n, used.sum_px, used.sum_pxx)
        mine_before = [a.copy() for a in mine]
        used.load(ps)
        chk.count(1, key=("stats", "load into a used container"))
        if not (used == st and same_bits(used.n, st.n) and same_bits(used.sum_px, st.sum_px) and same_bits(used.sum_pxx, st.sum_pxx) and int(used.t) == int(st.t)):
            chk.fail("statistics loaded into an existing (used) container of the same shape differ from the saved ones", sctx)
        if not all(np.array_equal(a, b) for a, b in zip(mine, mine_before)):
            chk.fail("GMMStats.load writes into arrays the caller had put into the container (they are referenced elsewhere)", sctx)
        pls = os.path.join(tmpd, "ls%d.h5" % i)
        write_legacy_stats(pls, st)
        sl = GMMStats.from_hdf5(pls)
        if not (sl == st and int(sl.t) == int(st.t)):
            chk.fail("legacy-format statistics load to different values", sctx)
        os.remove(pls)
        os.remove(ps)
        if i < 2:
            chk.sample(ctx)
    shutil.rmtree(tmpd, ignore_errors=True)
    chk.notes["correspondence"] = ("the file layer is tied to the source by the generated key lists (reader/writer/constructor bindings extracted from gmm.py on "
                                   "this run and decided in Coq); histories with save/load are executed against the object model in C17")
    return chk.finish(
        rule="ML and MAP machines, floors default/scalar/per-feature/matrix/tiny (variances 1e-20 below the default floor), random switches, iteration limit "
             "None/1/3/200, threshold None/1e-5/0.123; from_hdf5(path), from_hdf5(open file), load into an object of another shape; re-save; legacy layouts; "
             "statistics likewise; distinct = (trainer, floor kind, no limit?, no threshold?) | (stats, loader)",
        assumptions=["settings the file does not record (mean_var_update_threshold, map_alpha, map_relevance_factor, random_state, k_means_trainer) are at their defaults",
                     "legacy statistics files are written with 0-d scalars under the key names the legacy reader uses"])
