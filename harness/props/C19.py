"""C19  Training and scoring never modify or alias caller-owned data."""
import copy

import dask.bag
import numpy as np

from .. import fa
from .. import gen
from .. import gmmtrain as gt
from .. import iv
from .. import kmtrain as kt
from ..impl import GMMMachine, GMMStats, KMeansMachine, da, em, hexlist, make_gmm

linear_scoring = em.linear_scoring
WCCN, Whitening = em.WCCN, em.Whitening


def snap(o):
    """A bit-exact snapshot of a caller-owned object."""
    if isinstance(o, np.ndarray):
        return ("nd", o.shape, str(o.dtype), o.tobytes())
    if isinstance(o, da.Array):
        # a caller-owned lazy collection: what it evaluates to
        return ("dask", snap(np.asarray(o.compute(scheduler="synchronous"))))
    if isinstance(o, GMMStats):
        return ("stats", int(o.t), float(o.log_likelihood), snap(np.asarray(o.n)), snap(np.asarray(o.sum_px)), snap(np.asarray(o.sum_pxx)))
    if isinstance(o, GMMMachine):
        return ("gmm", snap(np.asarray(o.weights)), snap(np.asarray(o.means)), snap(np.asarray(o.variances)),
                snap(np.asarray(o.variance_thresholds, dtype=float)), snap(np.asarray(o.log_weights)), snap(np.asarray(o.g_norms)))
    if isinstance(o, (list, tuple)):
        return ("seq", tuple(snap(x) for x in o))
    if isinstance(o, (em.ISVMachine, em.JFAMachine)):
        return ("fa", snap(np.asarray(o.U)), snap(np.asarray(o.D)), snap(np.asarray(o.V)) if isinstance(o, em.JFAMachine) else None, snap(o.ubm))
    if isinstance(o, em.IVectorMachine):
        return ("iv", snap(np.asarray(o.T)), snap(np.asarray(o.sigma)), snap(o.ubm))
    if isinstance(o, (int, float, np.integer, np.floating)):
        return ("num", float(o))
    if o is None:
        return None
    raise TypeError(type(o))


def arrays_of(o):
    if isinstance(o, np.ndarray):
        return [o]
    if isinstance(o, GMMStats):
        return [a for a in (o.n, o.sum_px, o.sum_pxx) if isinstance(a, np.ndarray)]
    if isinstance(o, GMMMachine):
        return [a for a in (o._weights, o._means, o._variances, o._variance_thresholds) if isinstance(a, np.ndarray)]
    if isinstance(o, (list, tuple)):
        return [a for x in o for a in arrays_of(x)]
    return []


def shares(result_arrays, inputs):
    for a in result_arrays:
        for b in arrays_of(inputs):
            if isinstance(a, np.ndarray) and np.shares_memory(a, b):
                return True
    return False


def run(chk):
    chk.prove()
    r = gen.rng(chk.seed, "C19")
    rounds = 6 if chk.tier == "quick" else 200

    def guarded(name, inputs, call, results=lambda out: [], twice=True, ctx=None):
        """inputs: dict name -> caller-owned object.  Calls once (and again, reusing the same inputs): inputs bit-identical,
        results equal on the second call, results share no memory with the inputs."""
        before = {k: snap(v) for k, v in inputs.items()}
        out = call()
        chk.count(1, key=(name,))
        for k, v in inputs.items():
            if snap(v) != before[k]:
                chk.fail("%s modifies its input %r" % (name, k), dict(ctx or {}, entry=name, input=k))
                return out
        res = results(out)
        if shares(res, list(inputs.values())):
            chk.fail("the result of %s shares memory with a caller-owned input" % name, dict(ctx or {}, entry=name))
        if twice:
            res_snap = [snap(np.array(a)) for a in res]
            out2 = call()
            for k, v in inputs.items():
                if snap(v) != before[k]:
                    chk.fail("%s modifies its input %r on the second call" % (name, k), dict(ctx or {}, entry=name, input=k))
                    return out
            if [snap(np.array(a)) for a in results(out2)] != res_snap:
                chk.fail("%s gives a different result when called again with the same input objects" % name, dict(ctx or {}, entry=name))
        return out

    for rd in range(rounds):
        # ---------------------------------------------------------------- k-means
        init, X = kt.gen_clusters(r, K=r.choice([2, 3]), D=2, N=12)
        for cap, dask_in in ((0, False), (0, True), (1, False), (3, True), (r.choice([1, 3]), r.choice([False, True]))):
            ctx = {"X": hexlist(X), "init": hexlist(init), "max_iter": cap}
            data = da.from_array(X, chunks=((5, 7), (2,))) if dask_in else X
            tag = "dask" if dask_in else "numpy"
            km = guarded("KMeansMachine.fit[%s,max_iter=%d]" % (tag, cap), {"X": X, "init": init},
                         lambda: KMeansMachine(n_clusters=len(init), init_method=init, max_iter=cap).fit(data),
                         lambda m: [np.asarray(m.centroids_)], ctx=ctx)
            c0 = np.array(km.centroids_)
            Xs, inits = X.copy(), init.copy()
            init[...] = -777.0
            X[...] = 555.0
            if not np.array_equal(np.asarray(km.centroids_), c0):
                chk.fail("overwriting the training data / initial centroids afterwards changes the trained k-means model (%s, max_iter=%d)" % (tag, cap), ctx)
            X[...] = Xs
            init[...] = inits
        km = KMeansMachine(n_clusters=len(init), init_method=init.copy(), max_iter=2).fit(X)
        guarded("KMeansMachine.transform/predict", {"X": X, "centroids": km.centroids_},
                lambda: (km.transform(X), km.predict(X), km.get_variances_and_weights_for_each_cluster(X)),
                lambda o: [np.asarray(o[0]), np.asarray(o[2][0])], ctx=ctx)
        # ---------------------------------------------------------------- GMM ML / MAP
        w, mu, var, s, Xg = gt.gen_training(r, C=2, D=2, N=12)
        gctx = {"X": hexlist(Xg), "w": hexlist(w), "mu": hexlist(mu), "var": hexlist(var)}
        for dask_in in (False, True):
            data = da.from_array(Xg, chunks=((5, 7), (2,))) if dask_in else Xg
            tag = "dask" if dask_in else "numpy"

            def fit_ml():
                m = GMMMachine(n_gaussians=2, max_fitting_steps=2, update_variances=True, update_weights=True,
                               k_means_trainer=KMeansMachine(2, init_method=mu.copy(), max_iter=1))
                return m.fit(data)
            guarded("GMMMachine.fit[ml,kmeans-init,%s]" % tag, {"X": Xg}, fit_ml, lambda m: [m.means, m.variances, m.weights], ctx=gctx)
            prior = make_gmm(w, mu, var)

            def fit_map():
                m = GMMMachine(n_gaussians=2, trainer="map", ubm=prior, max_fitting_steps=2, update_variances=bool(rd % 2), update_weights=True)
                return m.fit(data)
            mm = guarded("GMMMachine.fit[map,%s]" % tag, {"X": Xg, "prior": prior}, fit_map, lambda m: [m.means, m.variances, m.weights], ctx=gctx)
            # fixed-ratio adaptation with a caller-owned per-component ratio array and a component that receives no data
            alpha_arr = np.array([0.3, 0.6])
            prior_far = make_gmm(w, np.vstack([mu[0], mu[1] + 1e4 * s]), var)

            def fit_map_alpha():
                m = GMMMachine(n_gaussians=2, trainer="map", ubm=prior_far, max_fitting_steps=2, map_relevance_factor=None, map_alpha=alpha_arr,
                               update_variances=bool(rd % 2), update_weights=True)
                return m.fit(data)
            guarded("GMMMachine.fit[map,per-component ratio array,%s]" % tag, {"X": Xg, "prior": prior_far, "map_alpha": alpha_arr}, fit_map_alpha,
                    lambda m: [m.means, m.variances, m.weights], ctx=gctx)
            # the adapted machine does not follow later changes of its prior's arrays
            for steps in (0, 2):
                ma = GMMMachine(n_gaussians=2, trainer="map", ubm=prior, max_fitting_steps=steps)
                if steps:
                    ma.fit(data)
                keep = (np.array(ma.means), np.array(ma.variances), np.array(ma.weights))
                pm, pv, pw = prior.means.copy(), prior.variances.copy(), prior.weights.copy()
                prior.means[...] += 9.0
                prior.variances[...] *= 3.0
                prior.weights[...] = 0.5
                if not (np.array_equal(ma.means, keep[0]) and np.array_equal(ma.variances, keep[1]) and np.array_equal(ma.weights, keep[2])):
                    chk.fail("the parameters of a MAP-adapted machine follow later changes to its prior's arrays (%d training steps, %s)" % (steps, tag), gctx)
                prior.means[...] = pm
                prior.variances[...] = pv
                prior.weights = pw
        m = make_gmm(w, mu, var)
        guarded("GMMMachine.acc_stats/transform/log_likelihood", {"X": Xg, "machine": m},
                lambda: (m.acc_stats(Xg), m.transform([Xg[:5], Xg[5:]]), m.log_likelihood(Xg), m.log_weighted_likelihood(Xg)),
                lambda o: [np.asarray(o[0].n), np.asarray(o[0].sum_px), np.asarray(o[2])], ctx=gctx)
        # ---------------------------------------------------------------- statistics addition
        a, b = m.acc_stats(Xg[:5]), m.acc_stats(Xg[5:])
        guarded("GMMStats + GMMStats", {"a": a, "b": b}, lambda: a + b, lambda o: [o.n, o.sum_px, o.sum_pxx])
        # an operand without frames (an empty segment) on either side: the sum is still a new object that shares nothing with the operands
        for side in ("a + empty", "empty + a"):
            e0 = GMMStats(len(np.asarray(a.n)), np.asarray(a.sum_px).shape[1])
            asn = snap(a)
            tot = (a + e0) if side == "a + empty" else (e0 + a)
            chk.count(1, key=("GMMStats + with an empty operand", side))
            if tot is a or shares([tot.n, tot.sum_px, tot.sum_pxx], [a]):
                chk.fail("`%s` returns (storage of) its operand instead of a new statistics object" % side, {"entry": side})
            tot += b
            if snap(a) != asn:
                chk.fail("after `t = %s; t += b` the operand a has changed" % side, {"entry": side})
        a2 = copy.deepcopy(a)
        bsnap = snap(b)
        a2 += b
        if snap(b) != bsnap:
            chk.fail("a += b modifies b", {})
        # ---------------------------------------------------------------- linear scoring
        models = np.asarray(m.means)[None] + 0.3
        st = [a, b]
        off = np.zeros((2, 2, 2)) + 0.1
        guarded("linear_scoring", {"models": models, "ubm": m, "stats": st, "offsets": off},
                lambda: linear_scoring(models, m, st, off, True), lambda o: [np.asarray(o)])
        # ---------------------------------------------------------------- ISV / JFA
        ubm, su = fa.gen_ubm(r, C=2, D=2)
        stats = fa.gen_stats(r, ubm, 6)
        y = np.array([0, 1, 0, 1, 1, 0])
        for kind in ("isv", "jfa"):
            for bag in (False, True):
                def fit_fa():
                    mach = fa.make_machine(kind, ubm, 1, 1, em_iterations=2, random_state=1)
                    if bag:
                        return mach.fit(dask.bag.from_sequence(stats, npartitions=3), list(y))
                    return mach.fit(stats, y)
                mach = guarded("%s.fit[%s]" % (kind.upper(), "bag" if bag else "list"), {"stats": stats, "y": y, "ubm": ubm}, fit_fa,
                               lambda o: [np.asarray(o.U), np.asarray(o.D)])
            probe = stats[:3]
            model = guarded("%s.enroll" % kind.upper(), {"stats": probe, "machine": mach}, lambda: mach.enroll(probe),
                            lambda o: [np.asarray(o[0]), np.asarray(o[-1])])
            mdl = np.asarray(model)[0] if kind == "isv" else model
            guarded("%s.score" % kind.upper(), {"probe": probe, "model": [np.asarray(q) for q in mdl] if kind == "jfa" else np.asarray(mdl), "machine": mach},
                    lambda: (mach.score(mdl, probe), mach.score(mdl, [probe[0]]), mach.estimate_x(probe), mach.estimate_ux(probe)),
                    lambda o: [np.asarray(o[2]), np.asarray(o[3])])
            # a UBM whose floors were lowered to zero and that has a feature in tiny units (variance 1e-20): scoring must not write into it
            ubm_t = copy.deepcopy(ubm)
            ubm_t.variance_thresholds = 0.0
            vt_ = np.array(ubm_t.variances, dtype=float)
            vt_[:, 0] = 1e-20
            ubm_t.variances = vt_
            mach_t = fa.make_machine(kind, ubm_t, 1, 1, U=np.asarray(mach.U), V=np.asarray(mach.V) if kind == "jfa" else None, Dv=np.asarray(mach.D))
            guarded("%s.estimate_x/score[ubm with a tiny variance]" % kind.upper(), {"probe": probe, "ubm": ubm_t},
                    lambda: (mach_t.estimate_x(probe), mach_t.score(mdl, probe)), lambda o: [np.asarray(o[0])])
            ga = gen.nprng(r)
            Xa = np.asarray(ubm.means)[ga.integers(0, 2, size=(4, 3))] + ga.normal(size=(4, 3, 2)) * np.sqrt(np.asarray(ubm.variances).mean())
            ya = np.array([0, 1, 1, 0])
            guarded("%s.fit_using_array" % kind.upper(), {"X": Xa, "y": ya, "ubm": ubm},
                    lambda: fa.make_machine(kind, ubm, 1, 1, em_iterations=1, random_state=1).fit_using_array(Xa, ya),
                    lambda o: [np.asarray(o.U)], twice=False)
            # the same from a Dask array with the labels as the caller's (unsorted) NumPy array: labels, array and the collection's value untouched
            Xad = da.from_array(Xa, chunks=((1, 3), (3,), (2,)))
            guarded("%s.fit_using_array[dask]" % kind.upper(), {"X (dask collection)": Xad, "X": Xa, "y": ya, "ubm": ubm},
                    lambda: fa.make_machine(kind, ubm, 1, 1, em_iterations=1, random_state=1).fit_using_array(Xad, ya),
                    lambda o: [np.asarray(o.U)], twice=(rd % 2 == 0))
            # a UBM that was untrained when the machine was constructed but has been trained by the caller since: fit_using_array leaves it alone
            late_ubm = GMMMachine(n_gaussians=2, max_fitting_steps=2, convergence_threshold=None, update_variances=True,
                                  k_means_trainer=KMeansMachine(2, init_method=np.asarray(ubm.means).copy(), max_iter=1))
            cls_ = em.ISVMachine if kind == "isv" else em.JFAMachine
            mlate = cls_(r_U=1, em_iterations=1, ubm=late_ubm, random_state=1, **({} if kind == "isv" else {"r_V": 1}))
            late_ubm.fit(np.vstack(Xa))
            snap_ubm = snap(late_ubm)
            trained_copy = copy.deepcopy(late_ubm)
            try:
                mlate.fit_using_array(Xa, ya)
                chk.count(1, key=("%s.fit_using_array[ubm trained by the caller after construction]" % kind.upper(),))
                if snap(late_ubm) != snap_ubm:
                    chk.fail("%s.fit_using_array re-trains / modifies a UBM that the caller had already trained (it was untrained only when the machine was constructed)"
                             % kind.upper(), {"kind": kind})
            except Exception as e:
                # a two-step UBM on twelve frames can come out degenerate (a component on one frame): then the ordinary route - a machine
                # constructed on the already trained UBM - raises as well, and the draw says nothing about this property
                try:
                    cls_(r_U=1, em_iterations=1, ubm=trained_copy, random_state=1, **({} if kind == "isv" else {"r_V": 1})).fit_using_array(Xa, ya)
                    ordinary_ok = True
                except Exception:
                    ordinary_ok = False
                if ordinary_ok:
                    chk.fail("%s.fit_using_array with a UBM trained after construction raises %r" % (kind.upper(), e), {"kind": kind})
                else:
                    chk.count(1, key=("%s.fit_using_array[degenerate two-step UBM: the ordinary route raises too]" % kind.upper(),))
            guarded("%s.enroll_using_array/score_using_array" % kind.upper(), {"X": Xa, "machine": mach},
                    lambda: (mach.enroll_using_array(Xa[0]), mach.score_using_array(mdl, list(Xa[:2]))), lambda o: [])
        # ---------------------------------------------------------------- i-vector
        for bag in (False, True):
            def fit_iv():
                np.random.seed(3)
                mach = iv.IVectorMachine(ubm=ubm, dim_t=2, max_iterations=2)
                return mach.fit(dask.bag.from_sequence(stats, npartitions=3) if bag else stats)
            ivm = guarded("IVectorMachine.fit[%s]" % ("bag" if bag else "list"), {"stats": stats, "ubm": ubm}, fit_iv,
                          lambda o: [np.asarray(o.T), np.asarray(o.sigma)])
        # an i-vector floor ABOVE some of the UBM's variances (features in small units / a raised variance_floor): the caller's UBM is left alone
        for upd in (False, True):
            def fit_iv_floor():
                np.random.seed(3)
                return iv.IVectorMachine(ubm=ubm, dim_t=2, max_iterations=1, update_sigma=upd,
                                         variance_floor=float(np.median(np.asarray(ubm.variances)))).fit(stats)
            guarded("IVectorMachine.fit[variance_floor above some UBM variances, update_sigma=%s]" % upd, {"stats": stats, "ubm": ubm}, fit_iv_floor,
                    lambda o: [np.asarray(o.T), np.asarray(o.sigma)], twice=False)
        # a MAP machine whose prior carries per-feature variance floors (an array): machine and prior share no storage, and editing the prior's
        # floors in place afterwards does not reach the adapted machine
        thr_arr = np.full(np.asarray(m.variances).shape[1], 1e-6) * (1.0 + np.arange(np.asarray(m.variances).shape[1]))
        prior_t = make_gmm(np.asarray(m.weights), np.asarray(m.means), np.asarray(m.variances), thr=thr_arr.copy())
        mapm = GMMMachine(n_gaussians=len(np.asarray(m.weights)), trainer="map", ubm=prior_t, max_fitting_steps=1, convergence_threshold=None, update_variances=True)
        chk.count(1, key=("MAP machine vs prior: array-valued floors",))
        if shares(arrays_of(mapm), [prior_t]):
            chk.fail("a MAP machine constructed from a prior with array-valued variance floors shares storage with the prior", {"entry": "GMMMachine(trainer='map', ubm=prior)"})
        else:
            mapm.fit(Xg)
            sc_before = np.array(mapm.log_likelihood(Xg))
            prior_t.variance_thresholds[...] = 50.0
            if not np.array_equal(np.asarray(mapm.log_likelihood(Xg)), sc_before) or np.any(np.asarray(mapm.variance_thresholds) == 50.0):
                chk.fail("editing the prior's variance floors in place after MAP adaptation changes the adapted machine (floors / scores)", {"entry": "prior.variance_thresholds[...] = 50"})
        for upd in (False, True):
            np.random.seed(3)
            ubm_iv = copy.deepcopy(ubm)
            ivk = iv.IVectorMachine(ubm=ubm_iv, dim_t=2, max_iterations=2, update_sigma=upd).fit(stats)
            chk.count(1, key=("IVectorMachine.fit aliasing", upd))
            if np.shares_memory(np.asarray(ivk.sigma), np.asarray(ubm_iv.variances)) or np.shares_memory(np.asarray(ivk.T), np.asarray(ubm_iv.means)):
                chk.fail("after IVectorMachine.fit(update_sigma=%s) the extractor's sigma / T share memory with the UBM's arrays" % upd, {"update_sigma": upd})
            else:
                w_before = np.array(ivk.project(stats[0]))
                sig_before = np.array(ivk.sigma)
                ubm_iv.variances[...] = np.asarray(ubm_iv.variances) * 3.0
                if not (np.array_equal(np.asarray(ivk.sigma), sig_before) and np.array_equal(np.asarray(ivk.project(stats[0])), w_before)):
                    chk.fail("overwriting the UBM's variances after IVectorMachine.fit(update_sigma=%s) changes the trained extractor / its i-vectors" % upd, {"update_sigma": upd})
        guarded("IVectorMachine.project/transform", {"stats": stats, "machine": ivm}, lambda: (ivm.project(stats[0]), ivm.transform(stats[:2])),
                lambda o: [np.asarray(o[0])])
        # ---------------------------------------------------------------- WCCN / whitening
        g = gen.nprng(r)
        Xw = g.normal(size=(12, 2)) @ np.array([[2.0, 0.3], [0.1, 1.0]]) + 1
        yw = np.array([0, 1, 2] * 4)
        guarded("Whitening.fit/transform", {"X": Xw}, lambda: (lambda t: (t, t.transform(Xw)))(Whitening().fit(Xw)), lambda o: [np.asarray(o[0].weights), np.asarray(o[1])])
        guarded("WCCN.fit/transform", {"X": Xw, "y": yw}, lambda: (lambda t: (t, t.transform(Xw)))(WCCN().fit(Xw, yw)), lambda o: [np.asarray(o[0].weights)])
        Xwd = da.from_array(Xw, chunks=((5, 7), (2,)))
        guarded("Whitening.fit/transform[dask]", {"X (dask collection)": Xwd, "X": Xw},
                lambda: (lambda t: (t, np.asarray(t.transform(Xwd))))(Whitening().fit(Xwd)), lambda o: [np.asarray(o[0].weights)])
        guarded("WCCN.fit/transform[dask]", {"X (dask collection)": Xwd, "X": Xw, "y": yw},
                lambda: (lambda t: (t, np.asarray(t.transform(Xwd))))(WCCN().fit(Xwd, yw)), lambda o: [np.asarray(o[0].weights)])
        if rd < 2:
            chk.sample({"round": rd, "entry_points": "fit, fit_using_array, enroll, score, transform, project, acc_stats, linear_scoring, +, +="})
    chk.notes["correspondence"] = "the effect programs of coq/Proofs/Heap.v are tied to the source by the in-place sites generated from /repo/src (see generated_facts)"
    return chk.finish(
        rule="every public entry point called (twice, reusing the same input objects) with bit-snapshots of all inputs before/after, np.shares_memory between results "
             "and inputs, and overwriting of training data / initial centroids / prior arrays afterwards; NumPy, Dask arrays and Dask bags; distinct = entry point")
