"""C20  K-means assigns to the nearest centroid; cluster-derived GMM initialisation is exact."""
from fractions import Fraction

import dask
import numpy as np

from .. import coqio as cq
from .. import gen
from .. import kmtrain as kt
from ..impl import GMMMachine, KMeansMachine, da, hexlist


def exact_dist(c, x):
    return float(sum((Fraction(float(a)) - Fraction(float(b))) ** 2 for a, b in zip(c, x)))


def run(chk):
    chk.prove()
    r = gen.rng(chk.seed, "C20")
    n_cases = 60 if chk.tier == "quick" else 600
    dterms, vterms = [], []
    eps = float(np.finfo(float).eps)
    for i in range(n_cases):
        offset = r.choice([0.0, 0.0, 1e3, 1e6, 1e8])
        cents, X = kt.gen_clusters(r, offset=offset)
        K, D = cents.shape
        N = len(X)
        if not kt.margin_ok(cents, X, rel=1e-9):
            continue
        km = KMeansMachine(n_clusters=K)
        km.centroids_ = np.array(cents)
        dist = np.asarray(km.transform(X))
        lab = np.asarray(km.predict(X))
        if lab.shape != (N,) or dist.shape != (K, N):
            chk.fail("for %d centroid(s) and %d sample(s) predict returns an array of shape %s and transform one of shape %s; one label per sample and one row per centroid, one column per sample are expected"
                     % (K, N, lab.shape, dist.shape), {"centroids": hexlist(cents), "X": hexlist(X), "shape": [K, D], "N": N})
            continue
        sc = max(1.0, float(np.abs(X - cents[0]).max())) ** 2
        dterms.append("{| kd_c := %s; kd_x := %s; kd_rtol := %s; kd_atol := %s; kd_d := %s; kd_lab := %s |}" % (
            cq.mat(cents), cq.mat(X), cq.fl(2.0 ** -40), cq.fl(1e-12 * sc), cq.mat(dist), cq.natlist(lab)))
        chk.count(1, key=("dist", K, D, offset))
        ctx = {"centroids": hexlist(cents), "X": hexlist(X), "shape": [K, D], "N": N, "offset": offset}
        if i < 2:
            chk.sample({"entry": "transform/predict", "K": K, "D": D, "N": N, "offset": offset, "labels": [int(a) for a in lab]})
        # ---- oracle: exact rational squared distances, shape, non-negativity, argmin
        if dist.shape != (K, N) or np.any(dist < 0):
            chk.fail("transform does not return a non-negative (n_clusters, n_samples) array", dict(ctx, shape_got=list(dist.shape)))
        ex = np.array([[exact_dist(cents[k], X[j]) for j in range(N)] for k in range(K)])
        if not np.allclose(dist, ex, rtol=1e-9, atol=1e-300):
            k_, j_ = np.unravel_index(np.argmax(np.abs(dist - ex) / (ex + 1e-300)), ex.shape)
            chk.fail("distance[%d,%d] = %r is not the squared Euclidean distance %r (offset %g)" % (k_, j_, dist[k_, j_], ex[k_, j_], offset),
                     dict(ctx, got=float(dist[k_, j_]), want=float(ex[k_, j_])))
        if not np.array_equal(lab, ex.argmin(axis=0)):
            chk.fail("predict is not the index of a nearest centroid", dict(ctx, got=[int(a) for a in lab], want=[int(a) for a in ex.argmin(axis=0)]))
        # single sample
        j = r.randrange(N)
        d1 = np.asarray(km.transform(X[j]))
        if not (d1.shape == (K, 1) and np.array_equal(d1[:, 0], dist[:, j]) and np.asarray(km.predict(X[j])).shape == (1,) and int(np.asarray(km.predict(X[j]))[0]) == int(lab[j])):
            chk.fail("single-sample transform/predict differs from the batch", dict(ctx, sample=j))
        # Dask row chunkings
        for parts in (gen.compositions(N) if N <= 5 else [gen.random_composition(r, N) for _ in range(2)]):
            dX = da.from_array(X, chunks=(tuple(parts), (D,)))
            dd = np.asarray(km.transform(dX).compute())
            dl = np.asarray(km.predict(dX).compute())
            chk.count(1, key=("dask", len(parts)))
            if not (np.allclose(dd, ex, rtol=1e-9, atol=1e-300) and np.array_equal(dl, lab)):
                chk.fail("Dask chunks %s change transform/predict" % (parts,), dict(ctx, chunks=list(parts)))
        # the same values in other containers / memory layouts: same distances, labels, statistics and the same short training run
        if i % 6 == 4:
            for lname, Xl in gen.layouts(X):
                try:
                    dl_ = np.asarray(km.transform(Xl))
                    ll_ = np.asarray(km.predict(Xl))
                    vl_, wl_ = km.get_variances_and_weights_for_each_cluster(Xl)
                    kml = KMeansMachine(n_clusters=K, init_method=np.array(cents), max_iter=2).fit(Xl)
                    km0 = KMeansMachine(n_clusters=K, init_method=np.array(cents), max_iter=2).fit(X)
                except Exception as e:
                    chk.fail("k-means transform / predict / statistics / fit on a %s input raises %r" % (lname, e), dict(ctx, layout=lname))
                    continue
                chk.count(1, key=("layout", lname))
                if not (np.array_equal(dl_, dist) and np.array_equal(ll_, lab) and np.allclose(np.asarray(kml.centroids_), np.asarray(km0.centroids_), rtol=1e-12, atol=0)
                        and np.allclose(np.asarray(wl_), np.asarray(km.get_variances_and_weights_for_each_cluster(X)[1]), rtol=1e-12, atol=0)):
                    chk.fail("k-means results differ for the same values given as %s" % lname, dict(ctx, layout=lname))
        # narrow integer / single-precision samples (quantised features): distances, labels, cluster variances and weights are those of the VALUES
        if i % 6 == 1:
            Xf = np.asarray(X, dtype=float)
            lo_, hi_ = float(Xf.min()), float(Xf.max())
            kq = 200.0 / max(hi_ - lo_, 1e-300)
            for dt in (np.uint8, np.int16, np.float32, np.float16):
                Xq = (np.clip(np.rint((Xf - lo_) * kq + 20.0), 0, 255).astype(dt) if dt not in (np.float32, np.float16) else ((Xf - lo_) * kq + 20.0).astype(dt))
                Xq64 = Xq.astype(np.float64)
                kmq = KMeansMachine(n_clusters=K)
                kmq.centroids_ = (np.asarray(cents, dtype=float) - lo_) * kq + 20.0
                try:
                    vq, wq = kmq.get_variances_and_weights_for_each_cluster(Xq)
                    vq64, wq64 = kmq.get_variances_and_weights_for_each_cluster(Xq64)
                    vqd, wqd = kmq.get_variances_and_weights_for_each_cluster(da.from_array(Xq, chunks=(max(1, N // 2), D)))
                    dq, dq64 = np.asarray(kmq.transform(Xq)), np.asarray(kmq.transform(Xq64))
                    dXq = da.from_array(Xq, chunks=(max(1, N // 2), D))
                    dqd, lqd = np.asarray(kmq.transform(dXq)), np.asarray(kmq.predict(dXq))
                except Exception as e:
                    chk.fail("k-means statistics / distances on %s samples raise %r" % (np.dtype(dt).name, e), dict(ctx, dtype=np.dtype(dt).name))
                    continue
                chk.count(1, key=("dtype", np.dtype(dt).name))
                labq = np.asarray(kmq.predict(Xq64))
                refv = np.array([Xq64[labq == k].var(axis=0) if np.any(labq == k) else np.zeros(D) for k in range(K)])
                # integer, half- and single-precision samples are exact in binary64 and all sums are formed in binary64 (DESIGN 9.4: D16, D17):
                # the results are those of the float64 copy of the same values up to binary64 rounding
                # the same samples in a Dask array of that dtype: distances and labels are those of the values (fractional centroids are not cast to it)
                rd_ = 1e-12 if dt not in (np.float32, np.float16) else 1e-5
                if not (np.allclose(dqd, dq64, rtol=rd_, atol=rd_) and (np.array_equal(lqd, labq) or not kt.margin_ok(kmq.centroids_, Xq64, rel=1e-4))):
                    chk.fail("on a Dask array of %s samples transform / predict are not the distances / labels of the sample values (largest distance error %.3g)"
                             % (np.dtype(dt).name, float(np.abs(dqd - dq64).max())), dict(ctx, dtype=np.dtype(dt).name, Xq=hexlist(Xq64), entry="transform/predict on a Dask array"))
                tolq = 64 * eps * 255.0 ** 2
                rq = 1e-9
                if not (np.allclose(np.asarray(vq), refv, rtol=rq, atol=tolq) and np.allclose(np.asarray(vq), np.asarray(vq64), rtol=rq, atol=tolq)
                        and np.allclose(np.asarray(vqd), np.asarray(vq64), rtol=rq, atol=tolq) and np.allclose(np.asarray(wq), np.asarray(wq64))
                        and np.allclose(np.asarray(wqd), np.asarray(wq64)) and np.allclose(dq, dq64, rtol=1e-12, atol=0) and np.all(np.asarray(vq) >= -tolq)):
                    chk.fail("on %s samples the cluster variances / weights / distances are not those of the sample values (variances %s, expected %s)"
                             % (np.dtype(dt).name, np.asarray(vq).tolist(), refv.tolist()), dict(ctx, dtype=np.dtype(dt).name, Xq=hexlist(Xq64)))
        # centroids of integer dtype (assigned by hand, or an integer initial array with max_iter=0) and fractional samples: variances / weights /
        # distances are those obtained with the same centroid values as floats
        if i % 3 == 2 and offset == 0.0:        # (no common offset: sum x^2/n - mean^2 is well conditioned, so the routes agree to rounding)
            ci_ = np.rint(np.asarray(cents, dtype=float) * 2.0).astype(np.int64)
            Xi_ = np.asarray(X, dtype=float) * 2.0
            kmi_, kmf_ = KMeansMachine(n_clusters=K), KMeansMachine(n_clusters=K)
            kmi_.centroids_, kmf_.centroids_ = ci_, ci_.astype(float)
            try:
                vi_, wi_ = kmi_.get_variances_and_weights_for_each_cluster(Xi_)
                vf_, wf_ = kmf_.get_variances_and_weights_for_each_cluster(Xi_)
                vid_, _wd = kmi_.get_variances_and_weights_for_each_cluster(da.from_array(Xi_, chunks=(max(1, N // 2), D)))
                chk.count(1, key=("integer-typed centroids",))
                if not (np.allclose(np.asarray(vi_), np.asarray(vf_), rtol=1e-9, atol=1e-9) and np.allclose(np.asarray(wi_), np.asarray(wf_)) and np.allclose(np.asarray(vid_), np.asarray(vf_), rtol=1e-9, atol=1e-9)
                        and np.allclose(np.asarray(kmi_.transform(Xi_)), np.asarray(kmf_.transform(Xi_)), rtol=1e-12, atol=0)):
                    chk.fail("with integer-typed centroids %s the cluster variances %s differ from those with the same centroid values as floats %s"
                             % (ci_.tolist(), np.asarray(vi_).tolist(), np.asarray(vf_).tolist()), dict(ctx, centroids_int=ci_.tolist(), X2=hexlist(Xi_)))
            except Exception as e:
                chk.fail("k-means statistics with integer-typed centroids raise %r" % (e,), dict(ctx, centroids_int=ci_.tolist()))
        # more than 2**20 centroid-sample pairs in ONE call, at a large common offset: labels and distances are those of the same samples scored in
        # small batches (the distance is formed from differences, whatever the size of the call)
        if i == 1 or (chk.tier == "thorough" and i % 100 == 1):
            gL = gen.nprng(r)
            KL, NL, offL = 16, 70001, 1e8
            cL = gL.normal(size=(KL, 2)) * 3.0 + offL
            XL = cL[gL.integers(0, KL, size=NL)] + gL.normal(size=(NL, 2)) * 0.3
            kmL = KMeansMachine(n_clusters=KL)
            kmL.centroids_ = cL.copy()
            lab_big = np.asarray(kmL.predict(XL))
            d_big = np.asarray(kmL.transform(XL))
            lab_small = np.concatenate([np.asarray(kmL.predict(XL[a_:a_ + 5000])) for a_ in range(0, NL, 5000)])
            d_small = np.concatenate([np.asarray(kmL.transform(XL[a_:a_ + 5000])) for a_ in range(0, NL, 5000)], axis=1)
            chk.count(1, key=("one large call vs small batches",))
            nd_ = int(np.sum(lab_big != lab_small))
            if nd_ or not np.allclose(d_big, d_small, rtol=1e-9, atol=1e-9):
                chk.fail("%d x %d centroid-sample pairs at a common offset %g: one call gives other labels for %d samples / other distances (largest difference %.3g) than the same samples in batches of 5000"
                         % (KL, NL, offL, nd_, float(np.abs(d_big - d_small).max())),
                         {"K": KL, "N": NL, "offset": offL, "data": "16 clusters (sd 0.3) around normal(0, 3) + 1e8, numpy default_rng stream of this run"})
        # more than 2**16 rows in one call / one block: every row is labelled (weights = fractions, variances = biased variances of ALL members)
        if i == 0 or (chk.tier == "thorough" and i % 100 == 0):
            gbig = gen.nprng(r)
            Nb = 70001
            cb = np.array([[0.0, 0.0], [5.0, 1.0]])
            labb = (np.arange(Nb) % 2)                     # alternating, so the tail of the array belongs to both clusters
            Xb = cb[labb] + gbig.normal(size=(Nb, 2)) * 0.5
            kmb = KMeansMachine(n_clusters=2)
            kmb.centroids_ = cb.copy()
            labr = np.argmin(((cb[:, None, :] - Xb[None, :, :]) ** 2).sum(-1), axis=0)
            wantw = np.bincount(labr, minlength=2) / Nb
            wantv = np.array([Xb[labr == k].var(axis=0) for k in range(2)])
            for chb in (None, (Nb,), (66000, 4001)):
                vb, wb = kmb.get_variances_and_weights_for_each_cluster(Xb if chb is None else da.from_array(Xb, chunks=(chb, (2,))))
                chk.count(1, key=("many rows", str(chb)))
                if not (np.allclose(np.asarray(wb), wantw, rtol=1e-12, atol=1e-12) and np.allclose(np.asarray(vb), wantv, rtol=1e-8, atol=1e-10)):
                    chk.fail("with %d samples (row blocks %s) the cluster weights %s / variances are not the fractions %s / biased variances of the nearest-centroid assignment"
                             % (Nb, chb, np.asarray(wb).tolist(), wantw.tolist()), {"N": Nb, "row_blocks": list(chb) if chb else None, "centroids": hexlist(cb),
                                                                                    "data": "alternating clusters around [[0,0],[5,1]] with sd 0.5, numpy default_rng stream of this run"})
        # several lazy results evaluated in ONE graph (two arrays through the same machine, two machines on the same array): each is its own
        if N >= 4 and i % 3 == 1:
            h = N // 2
            dA, dB = da.from_array(X[:h], chunks=(h, D)), da.from_array(X[h:], chunks=(N - h, D))
            la, lb, ta, tb = dask.compute(km.predict(dA), km.predict(dB), km.transform(dA), km.transform(dB))
            km2 = KMeansMachine(n_clusters=K)
            km2.centroids_ = np.array(cents)[::-1].copy()
            t1, t2 = dask.compute(km.transform(dX), km2.transform(dX))
            chk.count(1, key=("dask-one-graph",))
            if not (np.array_equal(np.asarray(la), lab[:h]) and np.array_equal(np.asarray(lb), lab[h:])
                    and np.allclose(np.asarray(ta), ex[:, :h], rtol=1e-9, atol=1e-300) and np.allclose(np.asarray(tb), ex[:, h:], rtol=1e-9, atol=1e-300)
                    and np.allclose(np.asarray(t1), ex, rtol=1e-9, atol=1e-300) and np.allclose(np.asarray(t2), ex[::-1], rtol=1e-9, atol=1e-300)):
                chk.fail("lazy transform/predict results computed together in one Dask graph differ from the same results computed one by one", dict(ctx, split=h))
        # a Dask array whose row-chunk sizes are unknown (lazy boolean filtering): same distances, labels, cluster variances and weights as in memory
        if N >= 4 and i % 3 == 2:
            keepm = np.ones(N + 2, dtype=bool)
            keepm[[1, N]] = False
            Xpad = np.vstack([X[:1], X[:1] + 1.0, X[1:N - 1], X[-1:] - 1.0, X[-1:]])       # rows 1 and N are dropped again by the mask
            dU = da.from_array(Xpad, chunks=((N + 2) // 2 + 1, D))[da.from_array(keepm, chunks=(N + 2) // 2 + 1)]
            try:
                # (transform/predict refuse unknown chunk sizes loudly - Dask cannot stack arrays of unknown shape - so only the
                #  statistics entry point, which accepts them, is compared)
                vu, wu = km.get_variances_and_weights_for_each_cluster(dU)
                vu, wu = np.asarray(vu), np.asarray(wu)
                v0, w0 = km.get_variances_and_weights_for_each_cluster(X)
                chk.count(1, key=("dask-unknown-chunk-sizes",))
                if not (np.allclose(wu, np.asarray(w0), rtol=1e-12, atol=0)
                        and np.allclose(vu, np.asarray(v0), rtol=1e-9, atol=64 * eps * max(1.0, float(np.abs(X).max())) ** 2, equal_nan=True)):
                    chk.fail("on a Dask array with unknown row-chunk sizes the cluster variances / weights differ from the in-memory ones (weights %s)" % wu.tolist(), ctx)
            except Exception as e:
                chk.fail("a Dask array with unknown row-chunk sizes raises %r" % (e,), ctx)
        # ---- per-cluster variances and weights, every chunking
        var, w = km.get_variances_and_weights_for_each_cluster(X)
        var, w = np.asarray(var), np.asarray(w)
        cnt = np.bincount(lab, minlength=K)
        big = max(1.0, float(np.abs(X).max())) ** 2
        tol = 64 * eps * big
        vterms.append("{| kv_c := %s; kv_nf := %s; kv_chunks := %s; kv_rtol := %s; kv_atol := %s; kv_var := %s; kv_w := %s |}" % (
            cq.mat(cents), cq.nat(D), cq.ten3([X]), cq.fl(2.0 ** -30), cq.fl(max(tol, 1e-12)), cq.mat(var), cq.vec(w)))
        if not (np.allclose(w, cnt / N, rtol=1e-12, atol=0) and abs(float(w.sum()) - 1) < 1e-12):
            chk.fail("cluster weights are not the fractions of assigned samples", dict(ctx, got=hexlist(w)))
        for k in range(K):
            if cnt[k]:
                want = X[lab == k].var(axis=0)
                if not (np.allclose(var[k], want, rtol=1e-9, atol=tol) and np.all(var[k] >= -tol)):
                    chk.fail("variance of cluster %d is not the biased variance of its samples (beyond the rounding of sum x^2/n - mean^2)" % k,
                             dict(ctx, cluster=k, got=hexlist(var[k]), want=hexlist(want)))
            elif not np.all(np.isfinite(var[k])):
                chk.fail("empty cluster %d has a non-finite variance" % k, dict(ctx, cluster=k))
        parts = gen.random_composition(r, N, 4)
        dvar, dw = km.get_variances_and_weights_for_each_cluster(da.from_array(X, chunks=(tuple(parts), (D,))))
        vterms.append("{| kv_c := %s; kv_nf := %s; kv_chunks := %s; kv_rtol := %s; kv_atol := %s; kv_var := %s; kv_w := %s |}" % (
            cq.mat(cents), cq.nat(D), cq.ten3(gen.split_rows(X, parts)), cq.fl(2.0 ** -30), cq.fl(max(tol, 1e-12)), cq.mat(np.asarray(dvar)), cq.vec(np.asarray(dw))))
        if not (np.allclose(dvar, var, rtol=1e-9, atol=tol, equal_nan=True) and np.allclose(dw, w, rtol=1e-12)):
            chk.fail("chunking %s changes the cluster variances/weights" % (parts,), dict(ctx, chunks=list(parts)))
        # ---- GMM initialised from k-means starts from exactly these centroids, variances (floored) and weights
        if i % 3 == 0 and offset <= 1e3:
            kmt = KMeansMachine(n_clusters=K, init_method=np.array(cents), max_iter=2)
            # every other case the constructor is also given weights / floors: initialisation from k-means replaces the weights all the same
            extra = {} if i % 2 else {"weights": np.asarray(gen.simplex(r, K))}
            g = GMMMachine(n_gaussians=K, k_means_trainer=kmt, max_fitting_steps=0, **extra)
            if i % 4 == 0:
                g.fit(X)
            else:
                g.initialize_gaussians(X)
            kv, kw = kmt.get_variances_and_weights_for_each_cluster(X)
            chk.count(1, key=("gmm_init", K, D))
            if not (np.array_equal(g.means, kmt.centroids_) and np.array_equal(g.weights, kw)
                    and np.array_equal(g.variances, np.maximum(g.variance_thresholds, kv))):
                chk.fail("GMM initialised from k-means does not start from the k-means centroids / floored cluster variances / weights", ctx)
            if np.shares_memory(g.means, kmt.centroids_):
                chk.fail("GMM means alias the k-means centroids", ctx)
    # ---- many clusters (more than 256) and small blocks: every cluster index is kept whatever the block size
    for rep in range(1 if chk.tier == "quick" else 4):
        g = gen.nprng(r)
        Kb = 300
        cb = np.stack([np.arange(Kb) % 20, np.arange(Kb) // 20], axis=1).astype(float) * 10.0
        lab_b = g.integers(0, Kb, size=900)
        lab_b[:Kb] = np.arange(Kb)
        Xb = cb[lab_b] + g.normal(size=(900, 2)) * 0.5
        kmb = KMeansMachine(n_clusters=Kb)
        kmb.centroids_ = cb
        want_w = np.bincount(lab_b, minlength=Kb) / 900.0
        for chunk in (None, 100, 255, 7):
            data_b = Xb if chunk is None else da.from_array(Xb, chunks=(chunk, 2))
            try:
                vb, wb = kmb.get_variances_and_weights_for_each_cluster(data_b)
                wb = np.asarray(wb)
                chk.count(1, key=("many-clusters", chunk))
                if not (np.allclose(wb, want_w, rtol=1e-12, atol=0) and np.all(np.asarray(vb) >= -1e-9) and np.all(np.asarray(vb) < 5.0)):
                    chk.fail("with %d clusters and row blocks of %s the cluster weights / variances are wrong (%d weights differ)" % (Kb, chunk, int(np.sum(~np.isclose(wb, want_w)))),
                             {"K": Kb, "N": 900, "row_chunk": chunk, "seed_rep": rep})
            except Exception as e:
                chk.fail("cluster statistics with %d clusters and row blocks of %s raise %r" % (Kb, chunk, e), {"K": Kb, "row_chunk": chunk})
    bad, info = cq.run_cases("C20d", kt.IMPORTS, "kd_case", "kd_check", dterms)
    chk.correspondence("KMeansMachine.transform/predict ~ KF.distances/KF.predict (difference form, offsets up to 1e8)", len(dterms), bad, info)
    bad, info = cq.run_cases("C20v", kt.IMPORTS, "kv_case", "kv_check", vterms)
    chk.correspondence("get_variances_and_weights_for_each_cluster (NumPy and Dask chunks) ~ KF.var_weights", len(vterms), bad, info)
    chk.partial = ["binary64 cancellation in sum x^2/n - mean^2 at large offsets is outside the R model: variances are compared within 64 eps max|x|^2"]
    return chk.finish(
        rule="centroids/data K<=4, D<=3, N in 6..30, offsets 0/1e3/1e6/1e8, ties excluded by margin; exact rational reference distances; all row "
             "chunkings for N<=5, sampled above; distinct = (dist,K,D,offset) | (dask,#chunks) | (gmm_init,K,D)")
