#!/venv/bin/python
"""run_check.py Cxx [--tier quick|thorough] [--replay file]

One contract for all properties: exit 0 if the property held on everything explored; exit 1 and a
line `VIOLATION property=<id> replay=<path>` otherwise.  Honours VERIF_SEED and VERIF_TIER."""
import argparse
import importlib
import json
import os
import signal
import sys

os.environ.setdefault("PYTHONHASHSEED", "0")
HERE = os.path.dirname(os.path.abspath(__file__))
sys.path.insert(0, HERE)


def main():
    ap = argparse.ArgumentParser()
    ap.add_argument("pid")
    ap.add_argument("--tier", default=None)
    ap.add_argument("--replay", default=None)
    a = ap.parse_args()
    tier = a.tier or os.environ.get("VERIF_TIER") or "quick"
    if tier not in ("quick", "thorough"):
        tier = "quick"
    seed = int(os.environ.get("VERIF_SEED", "0") or 0)
    from harness.common import Check
    mod = importlib.import_module("harness.props." + a.pid)
    if a.replay:
        data = json.load(open(a.replay))
        if hasattr(mod, "replay"):
            return mod.replay(data)
        print(json.dumps(data, indent=1)[:4000])
        return 0
    chk = Check(a.pid, tier, seed)
    # watchdog: a training loop that no longer terminates (e.g. an ignored iteration cap) must end as a reported violation, not as a hang.
    # The limits are two orders of magnitude above the normal running time of a check (quick: < 1 min, thorough: a few minutes).
    limit = int(os.environ.get("VERIF_WATCHDOG", "0") or 0) or (3600 if tier == "quick" else 6 * 3600)

    def on_alarm(signum, frame):
        raise TimeoutError("no result within %d s" % limit)
    signal.signal(signal.SIGALRM, on_alarm)
    signal.alarm(limit)
    try:
        return mod.run(chk)
    except Exception as e:      # an exception escaping from the implementation (or the harness) on a generated case
        import traceback
        tb = traceback.format_exc()
        in_impl = "/src/bob/learn/em/" in tb
        signal.alarm(0)
        chk.fail(("the implementation raised %r on a generated case" if in_impl else "the check itself failed with %r") % (e,),
                 {"traceback": tb.splitlines()[-25:], "raised_inside_implementation": in_impl})
        return chk.finish(rule="aborted by an exception; see the replay file")


if __name__ == "__main__":
    sys.exit(main())
