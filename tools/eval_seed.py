#!/usr/bin/env python3
"""eval_seed.py <seed-dir> <property> [more properties...]

Confirms a seeded change and runs checks against it:
  1. demo.py passes on the unchanged /repo;
  2. apply patch.diff (git -C /repo apply), demo.py must FAIL;
  3. (optional, --suite) the existing test suite still passes with the change (46 stable tests);
  4. run the quick check of each listed property against the changed tree; record exit code and VIOLATION line;
  5. undo the change (git -C /repo checkout -- .), regenerate facts, verify the tree is clean.
Prints one JSON line with the outcome."""
import json
import os
import subprocess
import sys
import time

V = os.path.dirname(os.path.dirname(os.path.abspath(__file__)))
STABLE_FAIL = {"test_gmm_kmeans_parallel_init", "test_gmm_kmeans_plusplus_init", "test_kmeans_fit", "test_kmeans_fit_init_pp", "test_kmeans_parameters"}


def sh(cmd, cwd=None, timeout=3600, env=None):
    p = subprocess.run(cmd, shell=True, cwd=cwd, capture_output=True, text=True, timeout=timeout, env=env)
    return p.returncode, p.stdout + p.stderr


def main():
    args = [a for a in sys.argv[1:] if not a.startswith("--")]
    suite = "--suite" in sys.argv
    tier = "thorough" if "--thorough" in sys.argv else "quick"
    d, props = args[0], args[1:]
    env = dict(os.environ, PYTHONPATH="/repo/src", PYTHONHASHSEED="0")
    out = {"seed": d, "props": props}
    rc, o = sh("git -C /repo status --porcelain --untracked-files=no")
    assert o.strip() == "", "repo not clean: " + o
    rc, o = sh("/venv/bin/python %s/demo.py" % d, cwd="/tmp", env=env, timeout=900)
    out["demo_clean_rc"] = rc
    rc, o = sh("git -C /repo apply %s/patch.diff" % d)
    if rc != 0:
        out["apply_error"] = o[-500:]
        print(json.dumps(out))
        return 1
    try:
        rc, o = sh("/venv/bin/python %s/demo.py" % d, cwd="/tmp", env=env, timeout=900)
        out["demo_patched_rc"] = rc
        out["demo_patched_tail"] = o[-300:]
        if suite:
            rc, o = sh("/venv/bin/python -m pytest -q -p no:cacheprovider --timeout=900 tests 2>&1 | tail -15", cwd="/repo", env=env, timeout=3000)
            failed = set()
            for line in o.splitlines():
                if line.startswith("FAILED"):
                    failed.add(line.split("::")[1].split(" ")[0])
            out["suite_unexpected_failures"] = sorted(failed - STABLE_FAIL)
            out["suite_tail"] = o.splitlines()[-1] if o.splitlines() else ""
        out["checks"] = {}
        for pid in props:
            t0 = time.time()
            rc, o = sh("/venv/bin/python run_check.py %s --tier %s" % (pid, tier), cwd=V, timeout=7200)
            lines = [l for l in o.splitlines() if l.startswith(("VIOLATION", "KNOWN-FINDING", "OK ", "FAIL "))]
            what = ""
            for l in lines:
                if l.startswith("VIOLATION"):
                    path = l.split("replay=")[1].split()[0]
                    try:
                        what = json.load(open(path)).get("what", "")[:300]
                    except Exception:
                        pass
            out["checks"][pid] = {"rc": rc, "lines": [l[:200] for l in lines], "what": what, "seconds": round(time.time() - t0)}
    finally:
        sh("git -C /repo checkout -- .")
        sh("/venv/bin/python -m harness.extract_facts", cwd=V)
    rc, o = sh("git -C /repo status --porcelain --untracked-files=no")
    out["repo_clean_after"] = (o.strip() == "")
    print(json.dumps(out))
    return 0


if __name__ == "__main__":
    sys.exit(main())
