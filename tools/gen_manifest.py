#!/usr/bin/env python3
"""Regenerates /verif/MANIFEST.json from the table below (run after claiming a new property)."""
import json
import os

VERIF = os.path.dirname(os.path.dirname(os.path.abspath(__file__)))

# property -> (technique, level text, level note, design ref)
T = {
 "C01": ("Coq proof (R instance of the GMM functor: logaddexp/lse = ln sum exp, ll = ln of the weighted product of normalised Gaussians, batch/chunk independence, lse bounds) + float-instance correspondence",
         "Theorems over R for every number of components/features/samples: the reported value is ln(sum_c w_c prod_d gauss1), per-component values log-sum-exp to it, batches split arbitrarily, the reduction only exponentiates non-positive arguments. The same functor body at binary64 is compared with GMMMachine on every run. Each one-dimensional factor is proved (Coquelicot, is_RInt_gen over the whole line) to integrate to one for every mean and positive variance; the textbook integral of exp(-t^2/2) = sqrt(2 pi), absent from the installed libraries, is proved in the development (GaussIntAux.v). Not formalised: the product over features as a multiple integral (Fubini), and binary64 finiteness in the tails (exhibited by the float model and the runs).",
         "Model hand-written; tie = differential run (tolerance 2^-30 rel). Reals axioms of the standard library.", "DESIGN.md 4/C01"),
 "C02": ("Coq proof (statistics as explicit responsibility-weighted sums; additivity over every split by induction; refusal iff declared shapes differ) + correspondence",
         "Theorems over R: responsibilities are non-negative and sum to one, sum n = T, e_step of any concatenation = fold of stats_add, permutation invariance, add refuses exactly on shape mismatch; correspondence of acc_stats/transform/+/+= incl. every composition of small row sets and Dask chunks.",
         "As C01.", "DESIGN.md 4/C02"),
 "C03": ("Coq proof (EM monotonicity of the ML M-step for all 8 switch settings by weighted Jensen + per-cell maximisers; loop theorem: exactly k* iterations, stop rule) + training correspondence",
         "Theorem over R, any sizes: one EM iteration (any subset of means/variances/weights updated, no floor active) keeps the model well-formed and does not decrease the average training log-likelihood; the loop returns the n-times iterated model, n <= cap, stops exactly when the relative-change test first fires from iteration 2, never at iteration 1. GMMMachine.fit is compared with the float model on final parameters, iteration count and reported values (NumPy/Dask, caps, placed thresholds).",
         "Model tied by differential runs; floors-inactive hypothesis as the property words it; Reals axioms.", "DESIGN.md 4/C03"),
 "C05": ("Coq proof (MAP M-step algebra: alpha range, blends, no-evidence fallbacks, end points, epsilon-delta limits in the relevance factor, weight renormalisation; variance clause proved of the repaired definition and refuted with a witness of the faithful one) + correspondence + step-by-step oracle",
         "Theorems over R about the per-component MAP helpers the model maps over components; the faithful variance blend (today's code, known finding D2) is proved NOT to satisfy the no-evidence clause. The oracle recomputes the stated blend from the implementation's own statistics after every iteration.",
         "Known finding D2 listed in known_findings.json; means-only penalised-likelihood monotonicity validated numerically (partial).", "DESIGN.md 4/C05"),
 "C06": ("Coq proof (k-means at R: nearest-centroid assignment is the first argmin, the mean minimises squared distance, descent of the distortion by regrouping, centroid = mean of previous members, criterion = distortion of entering centroids, chunk independence) + fit correspondence + step-by-step oracle",
         "Theorems over R for any numbers of clusters/features/samples/chunks; KMeansMachine.fit compared with the float model (centroids, criterion, iteration count; explicit and seeded initialisers read back; NumPy and Dask chunks); the oracle re-runs training one iteration at a time against the independently computed distortion.",
         "Loop theorems for the k-means loop itself (iterations, cap, stop rule, distortion never increases along a whole run); the stopping rule is additionally tied by correspondence and the oracle with placed thresholds. Reals axioms.", "DESIGN.md 4/C06"),
 "C20": ("Coq proof (squared Euclidean distance, shape, first-argmin label, weights = fractions summing to one, variances = biased variances >= 0, every chunking) + correspondence with exact rational reference distances",
         "Theorems over R; distances/labels/variances/weights of the implementation compared with the float model in difference form at offsets up to 1e8 and with exact rational arithmetic; GMM initialised from k-means checked to start from exactly centroids / floored variances / weights.",
         "binary64 cancellation of sum x^2/n - mean^2 at large offsets is outside the R model (tolerance 64 eps max|x|^2).", "DESIGN.md 4/C20"),
 "C11": ("Coq proof (the model's score is by construction the normalised linear score of the client mean with offset U x; channel factor and score depend on the probe only through its pooled sums; several statistics score as their sum) + correspondence of score/estimate_x/estimate_ux + entry-point oracle",
         "Theorems over R for any sizes; every entry point of the implementation (score, pooled score, score_using_array, enroll vs enroll_using_array, estimate_x/ux, ISV transform) evaluated on the same arrays.",
         "matrix inverse is an oracle (np.linalg.inv) - the float model uses Gauss-Jordan; x is checked against its normal equation on every case.", "DESIGN.md 4/C11"),
 "C04": ("Coq proof (chunk independence of the whole fit loops for GMM and k-means and of the cluster variances/weights; order independence of task DAGs, star-graph result and readers-before-writer; isolated = shared under the copy-back inclusion decided on attribute lists generated from /repo/src) + exploration under a custom Dask scheduler",
         "Theorems: fit on any row chunking = fit on the whole array (model, reported values and iteration count are all in the result); every valid schedule of a task graph yields the denotation; the M-step task starts after all block tasks; copy-back covers the M-step's writes for the lists extracted from the current source. The implementation is run under a scheduler that shuffles the ready set and optionally cloudpickles every task, over row and feature chunkings, against the in-memory fit.",
         "OS-thread interleavings inside NumPy kernels are not modelled; the ISV/JFA accumulators are proved additive over sessions/classes (FAAcc); WCCN/whitening are covered by the exploration and the permutation theorems of C14.", "DESIGN.md 4/C04"),
 "C07": ("Coq proof (each block update is the exact argmax of the joint log-posterior; one more iteration never lowers it for ISV and JFA; a joint fixed point is the unique global mode, by an exact second-order expansion; the unique mode exists and the iterates - hence the returned factors - converge to it, by the linear-rate argument for exact cyclic block ascent on a 1-strongly concave quadratic) under the contract of np.linalg.inv + enrolment correspondence + independent dense-solve oracle",
         "Theorems over R for any numbers of components, features, ranks and sessions (fractional counts allowed). ISVMachine/JFAMachine.enroll compared with the float model; the oracle evaluates the joint posterior independently after 1..8 iterations with D of order 1e-3..2 and checks approach to the directly solved mode.",
         "inverse = oracle with an operator-form contract (incl. symmetry); the convergence theorem is over R (binary64 iterates are compared with the float model and with the directly solved mode).", "DESIGN.md 4/C07"),
 "C08": ("Coq proof (score formula, normalisation and zero-frame guard, zero for the UBM, linearity, additivity, shape, and the derivative identity for any numbers of components/features/samples via Coquelicot) + correspondence over all input kinds + finite-difference oracle",
         "Theorems over R incl. is_derive (sum_i ll(shifted UBM) x_i) 0 (score). linear_scoring compared with the float model for machines/arrays, single/list statistics, scalar/(C,D)/(T,C,D) offsets, with/without normalisation, zero-frame statistics, MAP machine as UBM.",
         "Reals axioms (Coquelicot).", "DESIGN.md 4/C08"),
 "C10": ("Coq proof (projection solves the posterior-mean equation, which has a unique solution because the precision is I + PSD; zero statistics give 0; covariance floor; covariances untouched without updating; one training iteration never lowers the marginal likelihood, any subspace dimension, with and without covariance updating) + project/fit correspondence + independent marginal-likelihood oracle",
         "Theorems over R under the solver contract; IVectorMachine.project/fit compared with the float model (T0 replayed from the seeded global draw); the oracle computes the marginal likelihood with slogdet after every iteration.",
         "EM monotonicity of the marginal likelihood is a theorem for a subspace of ANY dimension, with fixed covariances and with covariance updating while no floor is active (the code's e_step/m_step never lowers the marginal as a function of (T, sigma)); ln det of the posterior precisions enters through a Cholesky factor supplied, like the inverse, by an oracle under a contract (Gaussian KL inequality proved without determinant theory). With an ACTIVE floor monotonicity is not claimed by the property and is checked numerically only.", "DESIGN.md 4/C10"),
 "C12": ("Coq proof (pairwise tree reduction = plain sum for every length; accumulators form a commutative monoid; per-partition E-steps add up to the E-step of the whole; one iteration independent of the partitioning; schedule independence; copy-back inclusion on generated lists) + bag exploration under the custom scheduler",
         "Theorems for every number and size of partitions; ISV/JFA/i-vector trained from dask bags with 1..n partitions, shuffled labels, shuffled task orders, shared and isolated, against the in-memory list fit.",
         "The ISV/JFA regrouping of bag partitions by running index is a theorem (Bag.v: regroup of any partitioning = grouping of the flat list); the running of the bag graph itself is covered by the exploration.", "DESIGN.md 4/C12"),
 "C14": ("Coq proof (whitened mean zero; L^T C L = I for M = C^-1 = L L^T with L lower triangular, positive diagonal; whitened covariance and WCCN within-class scatter/K are the identity; the WCCN projection depends only on the partition: class order, sample order and label values) under the contracts of inv and cholesky + correspondence + oracle",
         "Theorems over R for any dimension, class count and sample count; Whitening/WCCN.fit compared with the float model (Gauss-Jordan, Cholesky-Banachiewicz); oracle on negative / non-contiguous / unsorted labels and Dask input.",
         "inv/cholesky are oracles with explicit contracts (checked numerically by the oracle on every case).", "DESIGN.md 4/C14"),
 "C09": ("Coq proof (each of the three phases of JFA training is exact EM: one E/M iteration never lowers the phase marginal - the D phase and the V and U phases for subspaces of ANY rank, any numbers of components, features, classes, sessions; the ELBO argument with the Gaussian KL inequality proved through Cholesky factors, no determinant theory; closed-form rank-1 EM steps as special cases) + ISV/JFA fit correspondence + independent per-phase marginal oracle for V, U, D (slogdet)",
         "Theorems over R for the D, V and U phases in full; ln det of the posterior precisions is 2*sum ln L_ii of a Cholesky factor supplied by an oracle under a contract, like np.linalg.inv. The phase marginals are also evaluated numerically (slogdet) after every iteration of the public e_step_*/m_step_* functions; JFAMachine.fit/ISVMachine.fit compared with the float model (U, V, D).",
         "inverse and Cholesky factor are oracles with contracts; shapes/finiteness by the oracle; phase sequencing (finalize_v/finalize_u hand-over) by the correspondence and the list-vs-Dask-layout comparison.", "DESIGN.md 4/C09"),
 "C17": ("Coq proof (invariant over ALL histories of public operations: cached log-weights/normalisers are those of the visible parameters, variances are a fixed point of the clamp to the current floors; observations = those of the visible parameters; statistics likewise) + history correspondence (state compared after every operation) + fresh-machine oracle",
         "Theorems over R by induction over the operation list (setters with scalar/per-feature/matrix floors, EM steps with any switches, deepcopy, pickle, save/load); random histories (incl. loading another model into a used machine) run against the real object and the float model; augmented assignment through the properties and load-after-observe histories by the fresh-machine oracle.",
         "the object model is hand-written and tied by the history correspondence.", "DESIGN.md 4/C17"),
 "C18": ("Coq proof (generic round-trip theorem for a key-list driven writer/reader incl. h5py's str->bytes; obligations decided on the reader/writer/constructor key lists GENERATED from gmm.py on every run: every recorded setting bound to its own key, every written key read, trainer decoded, floors before variances, statistics fields) + round-trip oracle",
         "The reader/writer tie is regenerated from source (ast) on every run, so an edit that stops restoring a setting breaks a proof obligation; the oracle performs the round trips (constructor-from-file, open file, load into another shape, re-save, legacy layouts, statistics) and compares bits, equality, scores, settings and a further fit.",
         "extractor harness/extract_facts.py is trusted; unrecorded settings assumed at defaults (stated).", "DESIGN.md 4/C18"),
 "C19": ("Coq proof (effect language for array aliasing with a verified taint check: a checked program leaves caller memory unchanged and its untainted results are fresh; any sequence of checked calls; obligation decided on the in-place update sites GENERATED from /repo/src: every site targets a provably fresh local, a += left operand, a file handed over for writing, or an individually justified site) + bit-snapshot / shares_memory oracle over every public entry point",
         "check_sound and calls_compose are closed under the global context; the generated-site obligation breaks as soon as a new in-place update on a parameter or unknown target appears anywhere in the package (even one no small input triggers); the oracle calls every public entry point twice with the same input objects (NumPy, Dask arrays, bags), compares input bits, tests memory sharing and overwrites data / initial centroids / prior arrays afterwards.",
         "the provenance analysis in harness/extract_facts.py is conservative and trusted; effect programs model four named mechanisms only.", "DESIGN.md 4/C19"),
 "C13": ("Coq proof (validity - positive weights, right shapes, variances at or above positive floors - is an invariant of every ML and MAP M-step (Reynolds or fixed-ratio, today's variance blend and the repaired one) and of whole training runs with any trainer, any switches, floors binding or not; variances at or above floors after any variance-storing M-step; ML weights positive with 1 <= sum <= 1 + C*eps/T; MAP weights sum to one; k-means empty cluster keeps its centroid; i-vector covariance floor) + degenerate-data oracle after every iteration for every trainer",
         "Theorems over R; the oracle trains k-means (array and seeded initialisers, NumPy/Dask), k-means-initialised GMM, GMM ML/MAP with all switch settings and a starved component, and i-vector on duplicated rows, constant columns, two distinct points, outliers, equal rows and extreme scales.",
         "binary64 overflow/finiteness is exhibited, not proved (partial).", "DESIGN.md 4/C13"),
 "C16": ("Coq proof (explicit threading of the global generator: reseeded initialisation and seeded initialisers ignore the incoming state and any history of fits/draws; statistics, WCCN scatter and grouping invariant under sample, class and label permutations; whole k-means and GMM training runs invariant under any permutation of the training samples; seeding facts generated from /repo/src) + repeated-fit / permutation oracle",
         "Theorems + generated structural obligation (create_UVD calls np.random.seed(random_state) before drawing; k_init receives random_state; no other use of the global generator in k-means/GMM/WCCN); the oracle refits with perturbed global RNG states and shuffled histories (bit-identical) and with permuted samples / class ids.",
         "D12 (seeded string initialisers depend on row order, inside dask_ml) is a known finding.", "DESIGN.md 4/C16"),
 "C15": ("Coq proof (under x -> a*x+b per feature: per-component and total log-likelihood shift by -sum ln|a|, responsibilities invariant, statistics equivariant, one ML EM step equivariant, linear scores invariant with offsets scaled; i-vector precision / linear term / projection invariant and one i-vector training iteration equivariant; k-means distances scale by s^2 and assignments are invariant under x -> s*Qx+t with Q orthogonal (rotations, reflections), one k-means iteration and whole k-means training runs commute with that map (centroids mapped, criteria times s^2, same iteration count); the k-means stopping rule is scale-invariant, the GMM one is not: refuted with a witness) + metamorphic oracle on the implementation",
         "Theorems over R for any sizes; the oracle trains/scores on transformed inputs (scales of random sign, 1e-3..1e3, shifts up to 1e2; rotations for k-means) for GMM ML/MAP with all switch settings, linear scoring, ISV/JFA factors/scores/client mean, i-vectors.",
         "MAP with variance adaptation is not equivariant today: known finding D2 (shared with C05); threshold-stopped GMM training depends on the units through the relative-change rule: known finding D14; a numerically starved component's mean is origin-dependent through the count floor: known finding D15 (both with Coq refutation witnesses); the ISV/JFA factor invariances are theorems where Proofs/FAAffine.v is present, otherwise covered by the oracle.", "DESIGN.md 4/C15"),
}

NOT_YET = "check not built yet in this round (the proof technique applies; see DESIGN.md section 4)"


def main():
    props = [json.loads(l) for l in open(os.path.join(VERIF, "properties.jsonl"))]
    claimed = json.load(open(os.path.join(VERIF, "tools", "claimed.json")))
    checks, na = [], []
    for p in props:
        pid = p["id"]
        if pid in claimed and pid in T:
            tech, text, note, ref = T[pid]
            checks.append({
                "property_id": pid,
                "quick_cmd": "/venv/bin/python run_check.py %s --tier quick" % pid,
                "thorough_cmd": "/venv/bin/python run_check.py %s --tier thorough" % pid,
                "evidence_file": "/verif/evidence/%s.json" % pid,
                "replay_cmd_template": "/venv/bin/python run_check.py %s --replay {path}" % pid,
                "engine": "coq-proof+correspondence",
                "level_claimed": {"category": "proof", "text": text, "design_ref": ref},
                "level_note": note,
                "technique": tech,
            })
        else:
            na.append({"property_id": pid, "reason": NOT_YET})
    man = {
        "version": 1,
        "setup_cmd": "cd /verif && /venv/bin/python tools/setup.py",
        "hooks": {
            "guard": "BOB_LEARN_EM_VERIF",
            "enable": "no source hook is needed: task order/isolation are injected through Dask's public scheduler configuration, iteration counts are read from the package's logging records",
            "baseline_off_cmd": "cd /repo && /venv/bin/python -m pytest -ra -q -p no:cacheprovider --timeout=900 --continue-on-collection-errors",
            "source_commits": [],
            "add_only": True,
        },
        "engines": [{"name": "coq-proof+correspondence", "path": "/verif/coq + /verif/harness",
                     "serves_properties": [c["property_id"] for c in checks],
                     "kind_free_text": "Coq 8.16 development (model functors, theorems at R, executable float instance) + differential correspondence harness + ast-generated structural facts"}],
        "checks": checks,
        "not_applicable": na,
        "notes": "See DESIGN.md. known_findings.json lists genuine defects recorded rather than repaired.",
    }
    json.dump(man, open(os.path.join(VERIF, "MANIFEST.json"), "w"), indent=1)
    print("claimed:", [c["property_id"] for c in checks])


if __name__ == "__main__":
    main()
