#!/usr/bin/env python3
"""par_eval.py --patches <dir-or-patch>... [--props C01 C02 ...] [--workers N] [--tier quick]

Evaluates source changes WITHOUT touching /repo: every worker gets its own copy of /verif and its own git worktree of /repo
under /tmp/pv_<k>/ and runs the checks there with VERIF_REPO pointing at the worktree.  For each patch: apply, run the listed
checks (default: all claimed), record the OK / VIOLATION / KNOWN-FINDING lines and the first failure text, revert.
Prints one JSON line per patch.  Used for the harmless-rewrite experiment and for regressions over /verif/seeded."""
import argparse
import json
import os
import shutil
import subprocess
import sys
from concurrent.futures import ThreadPoolExecutor

V = os.path.dirname(os.path.dirname(os.path.abspath(__file__)))
BASE = os.environ.get("PAR_EVAL_BASE", "/tmp/pv")      # two evaluations running at the same time need different bases


def sh(cmd, cwd=None, env=None, timeout=7200):
    p = subprocess.run(cmd, shell=True, cwd=cwd, env=env, capture_output=True, text=True, timeout=timeout)
    return p.returncode, p.stdout + p.stderr


def setup(k):
    base = "%s_%d" % (BASE, k)
    sh("git -C /repo worktree remove --force %s/repo" % base)
    shutil.rmtree(base, ignore_errors=True)
    os.makedirs(base)
    sh("git -C /repo worktree add --detach %s/repo HEAD" % base)
    sh("rsync -a --exclude .git --exclude replays --exclude 'coq/cases/*' %s/ %s/verif/" % (V, base))
    os.makedirs(base + "/verif/replays", exist_ok=True)
    return base


def teardown(k):
    base = "%s_%d" % (BASE, k)
    sh("git -C /repo worktree remove --force %s/repo" % base)
    shutil.rmtree(base, ignore_errors=True)
    sh("git -C /repo worktree prune")


STABLE_FAIL = {"test_gmm_kmeans_parallel_init", "test_gmm_kmeans_plusplus_init", "test_kmeans_fit", "test_kmeans_fit_init_pp", "test_kmeans_parameters"}


def evaluate(base, patch, props, tier, full=False):
    repo, verif = base + "/repo", base + "/verif"
    env = dict(os.environ, VERIF_REPO=repo, PYTHONHASHSEED="0")
    penv = dict(os.environ, PYTHONPATH=repo + "/src", PYTHONHASHSEED="0")
    out = {"patch": patch, "checks": {}}
    demo = os.path.join(os.path.dirname(patch), "demo.py")
    if full and os.path.exists(demo):
        out["demo_clean_rc"] = sh("/venv/bin/python %s" % demo, cwd="/tmp", env=penv, timeout=1800)[0]
    rc, o = sh("git -C %s apply %s" % (repo, patch))
    if rc:
        out["apply_error"] = o[-300:]
        return out
    try:
        if full and os.path.exists(demo):
            rc, o = sh("/venv/bin/python %s" % demo, cwd="/tmp", env=penv, timeout=1800)
            out["demo_patched_rc"], out["demo_patched_tail"] = rc, o[-300:]
            rc, o = sh("/venv/bin/python -m pytest -q -p no:cacheprovider --timeout=900 tests 2>&1 | tail -15", cwd=repo, env=penv, timeout=3600)
            failed = {l.split("::")[1].split(" ")[0] for l in o.splitlines() if l.startswith("FAILED") and "::" in l}
            out["suite_unexpected_failures"] = sorted(failed - STABLE_FAIL)
            out["suite_tail"] = o.splitlines()[-1] if o.splitlines() else ""
        for pid in props:
            rc, o = sh("/venv/bin/python run_check.py %s --tier %s" % (pid, tier), cwd=verif, env=env)
            lines = [l for l in o.splitlines() if l.startswith(("VIOLATION", "KNOWN-FINDING", "OK ", "FAIL "))]
            what = ""
            for l in lines:
                if l.startswith("VIOLATION"):
                    try:
                        what = json.load(open(l.split("replay=")[1].split()[0])).get("what", "")[:300]
                    except Exception:
                        pass
            out["checks"][pid] = {"rc": rc, "what": what, "nofail": any("no-failing-input-found" in l for l in lines)}
    finally:
        sh("git -C %s checkout -- ." % repo)
        sh("git -C %s clean -fdq" % repo)
    return out


def main():
    ap = argparse.ArgumentParser()
    ap.add_argument("--patches", nargs="+", required=True)
    ap.add_argument("--props", nargs="*", default=None)
    ap.add_argument("--target-only", action="store_true", help="for /verif/seeded/<id> directories: run only the property in the directory name")
    ap.add_argument("--workers", type=int, default=4)
    ap.add_argument("--tier", default="quick")
    ap.add_argument("--full", action="store_true", help="also run demo.py (clean and patched) and the existing test suite with the patch")
    a = ap.parse_args()
    claimed = json.load(open(os.path.join(V, "tools", "claimed.json")))
    patches = []
    for p in a.patches:
        p = os.path.abspath(p)
        patches.append(os.path.join(p, "patch.diff") if os.path.isdir(p) else p)
    bases = [setup(k) for k in range(a.workers)]
    free = list(bases)

    def job(patch):
        base = free.pop()
        try:
            props = a.props or claimed
            if a.target_only:
                props = [os.path.basename(os.path.dirname(patch))[:3]]
            r = evaluate(base, patch, props, a.tier, a.full)
            print(json.dumps(r), flush=True)
            return r
        finally:
            free.append(base)
    try:
        with ThreadPoolExecutor(max_workers=a.workers) as ex:
            list(ex.map(job, patches))
    finally:
        for k in range(a.workers):
            teardown(k)


if __name__ == "__main__":
    sys.exit(main())
