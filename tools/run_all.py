#!/usr/bin/env python3
"""Run every claimed check (quick or thorough) on the current tree, in parallel, and summarise."""
import json, os, subprocess, sys, time
from concurrent.futures import ThreadPoolExecutor
V = os.path.dirname(os.path.dirname(os.path.abspath(__file__)))
tier = sys.argv[1] if len(sys.argv) > 1 else "quick"
man = json.load(open(os.path.join(V, "MANIFEST.json")))
pids = [c["property_id"] for c in man["checks"]]
extra = [p for p in sys.argv[2:]]
if extra:
    pids = extra
def run(pid):
    t0 = time.time()
    p = subprocess.run(["/venv/bin/python", "run_check.py", pid, "--tier", tier], cwd=V, capture_output=True, text=True)
    lines = [l for l in p.stdout.splitlines() if l.startswith(("OK", "FAIL", "VIOLATION", "KNOWN"))]
    return pid, p.returncode, time.time() - t0, lines
subprocess.run(["/venv/bin/python", "-c", "import sys; sys.path.insert(0,'%s'); from harness import common; b=common.build_coq(); print('build', b['ok'], b['seconds'])" % V])
with ThreadPoolExecutor(max_workers=int(os.environ.get("JOBS", "6"))) as ex:
    for pid, rc, dt, lines in ex.map(run, pids):
        print(pid, "rc=%d" % rc, "%.0fs" % dt, " | ".join(lines)[:300])
