#!/venv/bin/python
"""setup_cmd: build the framework from files on disk only (offline): regenerate the structural
facts from /repo/src, full .vo build of the Coq development from clean, then one coqchk pass over
the property files (independent re-check; its axiom list is stored in coq/build/coqchk.txt)."""
import os
import subprocess
import sys

HERE = os.path.dirname(os.path.dirname(os.path.abspath(__file__)))
sys.path.insert(0, HERE)
COQ = os.path.join(HERE, "coq")


def main():
    from harness import common
    subprocess.run("find . -name '*.vo' -o -name '*.vok' -o -name '*.vos' -o -name '*.glob' -o -name '.*.aux' | xargs rm -f; rm -f Makefile Makefile.conf .Makefile.d",
                   shell=True, cwd=COQ)
    b = common.build_coq()
    print("coq build:", "ok" if b["ok"] else "FAILED", b["seconds"], "s")
    if not b["ok"]:
        print(b["log"][-3000:])
        return 1
    hp = common.hygiene()
    if hp:
        print("hygiene problems:", hp)
        return 1
    if os.environ.get("VERIF_SKIP_COQCHK") != "1":
        mods = []
        for f in sorted(os.listdir(os.path.join(COQ, "Properties"))):
            if f.endswith(".v"):
                mods.append("BLE.Properties." + f[:-2])
        try:
            p = subprocess.run("timeout 1500 coqchk -silent -o -R . BLE " + " ".join(mods), shell=True, cwd=COQ,
                               capture_output=True, text=True)
            os.makedirs(os.path.join(COQ, "build"), exist_ok=True)
            open(os.path.join(COQ, "build", "coqchk.txt"), "w").write(p.stdout + p.stderr)
            print("coqchk rc", p.returncode)
            print((p.stdout + p.stderr)[-1500:])
        except Exception as e:
            print("coqchk skipped:", e)
    return 0


if __name__ == "__main__":
    sys.exit(main())
